"""Generated configurations for whole-program checks and the quantities main.cpp derives from them.

derive(opts) recomputes, in float64 and with the formulas documented in main.cpp, what the program derives from its
options (synchrotron frequency, natural bunch length, step length, padded lengths ...).  The generators construct
configurations whose transform lengths fall into gen.NPOOL so that FFTW planning stays cheap."""
import math
import numpy as np
from hypothesis import strategies as st

from vlib import gen

C = 2.99792458e8
ME = 510998.9
E_CH = 1.602e-19
EPS0 = 8.854187817e-12

DEFAULTS = dict(alpha0=float(np.float32(4e-3)), alpha1=0.0, alpha2=0.0, SynchrotronFrequency=0.0,
                RevolutionFrequency=float(np.float32(9e6)), DampingTime=-1.0, HarmonicNumber=50.0, InitialDistStep=-1,
                InitialDistZoom=1.0, BunchCurrent=[float(np.float32(3e-3))], BendingRadius=-1.0, BeamEnergy=1.3e9,
                BeamEnergySpread=4.7e-4, VacuumGap=0.03, UseCSR=True, CollimatorRadius=0.0, WallConductivity=0.0,
                WallSusceptibility=0.0, CutoffFreq=float(np.float32(23e9)), AcceleratingVoltage=1e6, LinearRF=True,
                RFAmplitudeSpread=0.0, RFPhaseSpread=0.0, RFPhaseModAmplitude=0.0, RFPhaseModFrequency=0.0,
                outstep=100, SavePhaseSpace=0, StepsPerTs=1000, StepsPerRevolution=0.0, padding=8.0, RoundPadding=True,
                PhaseSpaceSize=12.0, PhaseSpaceShiftX=0.0, PhaseSpaceShiftY=0.0, RenormalizeCharge=0, FPType=3, FPTrack=3,
                GridSize=256, rotations=5.0, derivation=4, InterpolationPoints=4, InterpolateClamped=False)


def upper_pow2(v):
    v = int(v)
    p = 1
    while p < v:
        p *= 2
    return p


def derive(o):
    """o: dict of options (missing = default).  Mirrors main.cpp:179-355 in float64."""
    g = dict(DEFAULTS)
    g.update(o)
    d = {}
    n = int(g["GridSize"])
    pq = float(np.float32(g["PhaseSpaceSize"]))
    d["n"] = n
    d["pq"] = pq
    d["qcenter"] = -float(np.float32(g["PhaseSpaceShiftX"])) * pq / (n - 1)
    d["pcenter"] = -float(np.float32(g["PhaseSpaceShiftY"])) * pq / (n - 1)
    sE, E0 = g["BeamEnergySpread"], g["BeamEnergy"]
    dE = sE * E0
    frev = float(np.float32(g["RevolutionFrequency"]))
    R = g["BendingRadius"] if g["BendingRadius"] > 0 else C / (2 * math.pi * frev)
    H = float(np.float32(g["HarmonicNumber"]))
    fRF = frev * H
    V = g["AcceleratingVoltage"]
    gamma = E0 / ME
    V0 = E_CH * gamma ** 4 / (3 * EPS0 * R)
    Veff = math.sqrt(V * V - V0 * V0)
    fs = float(np.float32(g["SynchrotronFrequency"]))
    a0 = float(np.float32(g["alpha0"]))
    if fs == 0:
        fs = frev * math.sqrt(a0 * H * Veff / (2 * math.pi * E0))
    else:
        a0 = math.copysign(1, fs) * 2 * math.pi * E0 / (H * Veff) * (fs / frev) ** 2
    bl = C * dE / H / frev ** 2 / Veff * fs
    fill = [float(np.float32(x)) for x in g["BunchCurrent"]]
    nbuckets = len(fill)
    buckets = [nbuckets - 1 - i for i, x in enumerate(fill) if x > 0]
    bunches = [x for x in fill if x > 0]
    Ib = float(sum(bunches))
    steps = g["StepsPerRevolution"] * frev / fs if g["StepsPerRevolution"] > 0 else max(int(g["StepsPerTs"]), 1)
    rot = float(np.float32(g["rotations"]))
    dt = 1.0 / (fs * steps)
    spacing_ps = (1.0 / fRF) * C / bl / pq
    padding = max(g["padding"], 1.0)
    padded = math.ceil(n * padding)
    spaced = math.ceil(n * nbuckets * spacing_ps)
    if g["RoundPadding"]:
        padded, spaced = upper_pow2(padded), upper_pow2(spaced)
    W0 = V0 * E_CH
    calc_damp = E0 * E_CH / W0 / frev
    td = calc_damp if g["DampingTime"] < 0 else g["DampingTime"]
    d.update(sE=sE, E0=E0, dE=dE, frev=frev, R=R, H=H, fRF=fRF, V=V, V0=V0, Veff=Veff, fs=fs, alpha0=a0, bl=bl, fill=fill,
             nbuckets=nbuckets, buckets=buckets, shares=[x / Ib for x in bunches] if Ib else [], nb=len(bunches), Ib=Ib,
             Qb=Ib / frev if frev else 0, steps=steps, rotations=rot, dt=dt, revolutionpart=frev * dt, t_sync=1 / fs,
             spacing_ps=spacing_ps, spacing_bins=int(math.floor(n * spacing_ps + 0.5)), padded_bins=padded, spaced_bins=spaced,
             nmax_wake=spaced if nbuckets > 1 else padded, fmax=n * C / (pq * bl), laststep=int(math.ceil(steps * rot)),
             t_damp=td, e1=(2.0 / (fs * td * steps)) if td > 0 else 0.0, angle=2 * math.pi / steps, calc_damp=calc_damp)
    return d


def alpha0_for_spacing(target_sps, o):
    """momentum compaction that makes main.cpp's 'number of phase spaces per bunch spacing' equal target_sps"""
    g = dict(DEFAULTS)
    g.update(o)
    d = derive(dict(o, SynchrotronFrequency=0.0, alpha0=4e-3))
    bl_needed = (1.0 / d["fRF"]) * C / (target_sps * d["pq"])
    # bl = c dE/(H frev^2 Veff) * frev sqrt(a0 H Veff/(2 pi E0))
    k = C * d["dE"] / (d["H"] * d["frev"] * d["Veff"])
    return (bl_needed / k) ** 2 * 2 * math.pi * d["E0"] / (d["H"] * d["Veff"])


def padding_for(N, n):
    """padding factor p with ceil(n*p) == N"""
    return (N - 0.5) / n


@st.composite
def base_config(draw, nmin=16, nmax=64, max_laststep=60, min_laststep=1, multibunch=True, wake=("none", "collimator", "wall", "csr", "plates", "file"),
                allow_track=False, big=0, via_rev=0, machine=0):
    """a fast, valid configuration: returns dict of options (JSON-able); big=k: one configuration in k uses a
    production-size grid (the program's default is 256); via_rev=k: one configuration in k gives the number of steps through
    StepsPerRevolution (documented to overwrite StepsPerTs, which then carries a decoy value)"""
    n = draw(st.integers(nmin, nmax))
    if big and draw(st.integers(0, big - 1)) == 0:
        n = draw(st.sampled_from([255, 256, 257, 264]))
    o = dict(GridSize=n)
    fs_route = False
    if machine and draw(st.integers(0, machine - 1)) == 0:
        # another machine: every quantity main.cpp derives (synchrotron frequency, natural bunch length, time step, bucket
        # spacing, unit factors, wake scaling) moves with these; one in three gives the synchrotron frequency instead of
        # the momentum compaction factor (the documented second route), one in three an explicit bending radius
        o["RevolutionFrequency"] = gen.f32(10 ** draw(st.floats(6.0, 7.3)))
        o["HarmonicNumber"] = float(draw(st.integers(20, 400)))
        o["BeamEnergy"] = float(10 ** draw(st.floats(8.7, 9.5)))
        o["BeamEnergySpread"] = float(10 ** draw(st.floats(-3.7, -2.9)))
        o["PhaseSpaceSize"] = draw(st.sampled_from([10.0, 12.0, 16.0]))
        if draw(st.integers(0, 2)) == 0:
            o["BendingRadius"] = float(draw(st.floats(2.0, 30.0)))
        d0 = derive(dict(o, AcceleratingVoltage=1e9))
        o["AcceleratingVoltage"] = float(max(2.5 * d0["V0"], 10 ** draw(st.floats(5.5, 6.5))))
        o["alpha0"] = gen.f32(10 ** draw(st.floats(-3.5, -2.0)))
        fs_route = draw(st.integers(0, 2)) == 0
    steps = draw(st.integers(10, 200))
    o["StepsPerTs"] = steps
    laststep = draw(st.integers(min_laststep, max_laststep))
    # rotations is a double option, converted to float in main; laststep = ceil(steps*float(rotations))
    half = draw(st.booleans())
    rot = float(np.float32((laststep - 0.5) / steps)) if half else float(np.float32(laststep / steps))
    o["rotations"] = rot
    use_rev = bool(via_rev and half and draw(st.integers(0, via_rev - 1)) == 0)
    decoy = draw(st.integers(10, 200))
    o["InterpolationPoints"] = draw(st.sampled_from([1, 2, 3, 4, 4]))
    o["derivation"] = draw(st.sampled_from([3, 4]))
    if draw(st.integers(0, 2)) == 0:
        o["InterpolateClamped"] = True        # documented option (saturation of the interpolation); no effect on the CPU path
    o["FPType"] = draw(st.sampled_from([0, 1, 2, 3, 3, 3]))
    o["RenormalizeCharge"] = draw(st.sampled_from([-1, 0, 0, 1, 3]))
    o["LinearRF"] = draw(st.booleans())
    if draw(st.booleans()):
        o["PhaseSpaceShiftX"] = gen.f32(draw(st.floats(-6, 6)))
    if draw(st.booleans()):
        o["PhaseSpaceShiftY"] = gen.f32(draw(st.floats(-6, 6)))
    o["InitialDistZoom"] = draw(st.sampled_from([1.0, 0.8, 1.3]))
    if draw(st.booleans()):
        o["DampingTime"] = float(10 ** draw(st.floats(-4, -2)))
    nbun = draw(st.sampled_from([1, 1, 2, 3])) if multibunch else 1
    w = draw(st.sampled_from(list(wake)))
    if nbun > 1:
        cur = [gen.f32(draw(st.floats(2e-4, 3e-3))) for _ in range(nbun)]
        nempty = draw(st.integers(0, 2))
        pat = cur + [0.0] * nempty
        pat = draw(st.permutations(pat))
        if pat[0] == 0.0 and pat[-1] == 0.0 and len(pat) > nbun:
            pass
        o["BunchCurrent"] = list(pat)
        o["RoundPadding"] = True
        sps = draw(st.floats(1.05, 2.5))
        if draw(st.integers(0, 2)) == 0:
            # not rounded to powers of two: the radiation field's length comes from the pool (odd lengths included), the
            # train's own length is whatever the spacing gives (one more FFTW plan, bounded in size)
            o["RoundPadding"] = False
            N = draw(st.sampled_from(gen.npool_at_least(2 * n, 6 * n)))
            o["padding"] = padding_for(N, n)
            sps = min(sps, 600.0 / (n * len(pat)))
            sps = max(sps, 1.02)
        o["alpha0"] = gen.f32(alpha0_for_spacing(sps, o))
    else:
        o["BunchCurrent"] = [gen.f32(draw(st.floats(1e-4, 3e-3)))]
        if draw(st.booleans()):
            o["RoundPadding"] = False
            # N/2 >= n: with a shorter padded length the results file cannot be created at all (the frequency axis is
            # stored with a chunk of n cells but has only N/2 entries; HDF5 refuses, the program reports it and aborts)
            N = draw(st.sampled_from(gen.npool_at_least(2 * n, 8 * n)))
            o["padding"] = padding_for(N, n)
        else:
            o["padding"] = draw(st.sampled_from([2.0, 4.0, 8.0]))
    if w == "none":
        o["VacuumGap"] = 0.0
    elif w == "collimator":
        o["UseCSR"] = False
        o["VacuumGap"] = 0.03
        o["CollimatorRadius"] = draw(st.sampled_from([0.005, 0.01]))
    elif w == "wall":
        o["UseCSR"] = False
        o["VacuumGap"] = 0.03
        o["WallConductivity"] = draw(st.sampled_from([1e6, 5.8e7]))
    elif w == "csr":
        o["VacuumGap"] = -1.0
    elif w == "plates":
        o["VacuumGap"] = draw(st.sampled_from([0.03, 0.01]))
    elif w == "file":
        # impedance table read from a file (cli.run writes zgen.dat into the run directory), alone or added to a model
        o["Impedance"] = "zgen.dat"
        if draw(st.booleans()):
            o["VacuumGap"] = 0.0
        else:
            o["UseCSR"] = False
            o["VacuumGap"] = 0.03
            o["CollimatorRadius"] = 0.005
    if fs_route:
        d = derive(o)
        o["SynchrotronFrequency"] = gen.f32(d["fs"])
        o["alpha0"] = gen.f32(draw(st.sampled_from([1e-3, 4e-3, 2e-2])))     # decoy: the frequency overrides it
    if use_rev:
        d = derive(o)
        # in general StepsPerRevolution*f_rev/f_s is not a whole number: half of these configurations have a fractional
        # number of steps per synchrotron period (round-7 seed C10h truncates it for the time axis of the results file)
        fracsteps = steps + (draw(st.floats(0.05, 0.95)) if draw(st.booleans()) else 0.0)
        o["StepsPerRevolution"] = float(fracsteps * d["fs"] / d["frev"])     # steps = StepsPerRevolution*f_rev/f_s
        o["StepsPerTs"] = decoy
    if n >= 200 or "BeamEnergy" in o:
        # fine grids / other machines: keep the per-step decrement inside the explicit diffusion scheme's stable range (e1 < delta^2/2),
        # otherwise the run diverges to NaN within a few steps and nothing in its output can be judged
        d = derive(o)
        delta = d["pq"] / (n - 1)
        if d["e1"] > 0.35 * delta ** 2:
            o["DampingTime"] = float(2.0 / (d["fs"] * d["steps"] * 0.35 * delta ** 2))
    return o
