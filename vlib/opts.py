"""Table of Inovesa's program options (read off ProgramOptions.cpp / --help) and Hypothesis strategies for legal values."""
import numpy as np
from hypothesis import strategies as st

# name -> (type, getter key in the shim's JSON, short option or None, sources allowed)
#   type: f4 float, f8 double, u4 uint32, i4 int32, i8 int64, b bool, s string, vf4 vector<float>
OPTS = {
    "alpha0": ("f4", "Alpha0"), "alpha1": ("f4", "Alpha1"), "alpha2": ("f4", "Alpha2"),
    "SynchrotronFrequency": ("f4", "SyncFreq"), "RevolutionFrequency": ("f4", "RevolutionFrequency"),
    "DampingTime": ("f8", "DampingTime"), "HarmonicNumber": ("f4", "HarmonicNumber"),
    "InitialDistFile": ("s", "StartDistFile"), "InitialDistStep": ("i8", "StartDistStep"),
    "InitialDistZoom": ("f8", "StartDistZoom"), "BunchCurrent": ("vf4", "BunchCurrents"),
    "BendingRadius": ("f8", "BendingRadius"), "BeamEnergy": ("f8", "BeamEnergy"),
    "BeamEnergySpread": ("f8", "EnergySpread"), "Impedance": ("s", "ImpedanceFile"),
    "VacuumGap": ("f8", "VacuumChamberGap"), "UseCSR": ("b", "UseCSR"), "CollimatorRadius": ("f8", "CollimatorRadius"),
    "WallConductivity": ("f8", "WallConductivity"), "WallSusceptibility": ("f8", "WallSusceptibility"),
    "CutoffFreq": ("f4", "CutoffFrequency"), "AcceleratingVoltage": ("f8", "RFVoltage"), "LinearRF": ("b", "LinearRF"),
    "RFAmplitudeSpread": ("f8", "RFAmplitudeSpread"), "RFPhaseSpread": ("f8", "RFPhaseSpread"),
    "RFPhaseModAmplitude": ("f8", "RFPhaseModAmplitude"), "RFPhaseModFrequency": ("f8", "RFPhaseModFrequency"),
    "cldev": ("i4", "CLDevice"), "output": ("s", "OutFile"), "outstep": ("u4", "OutSteps"),
    "SavePhaseSpace": ("u4", "SavePhaseSpace"), "tracking": ("s", "ParticleTracking"), "verbose": ("b", "Verbosity"),
    "run_anyway": ("b", "ForceRun"),
    "StepsPerTs": ("u4", "StepsPerTsync"), "StepsPerRevolution": ("f8", "StepsPerTrev"), "padding": ("f8", "Padding"),
    "RoundPadding": ("b", "RoundPadding"), "PhaseSpaceSize": ("f4", "PhaseSpaceSize"),
    "PhaseSpaceShiftX": ("f4", "PSShiftX"), "PhaseSpaceShiftY": ("f4", "PSShiftY"),
    "RenormalizeCharge": ("i4", "RenormalizeCharge"), "FPType": ("u4", "FPType"), "FPTrack": ("u4", "FPTrack"),
    "GridSize": ("u4", "GridSize"), "rotations": ("f8", "NRotations"), "derivation": ("u4", "DerivationType"),
    "InterpolationPoints": ("u4", "InterpolationPoints"), "InterpolateClamped": ("b", "InterpolationClamped"),
}
ALIASES = {"RFVoltage": "AcceleratingVoltage", "SyncFreq": "SynchrotronFrequency", "steps": "StepsPerTs"}
IGNORED = {"HaissinskiIterations": "u4", "InitialDistParam": "u4", "RotationType": "u4", "SaveSourceMap": "b"}
# documented legal ranges (sign / meaning from the help text); floats are drawn as arbitrary representable values inside
RANGE = {
    "alpha0": (1e-5, 1e-1), "alpha1": (-1e-1, 1e-1), "alpha2": (-1e-1, 1e-1), "SynchrotronFrequency": (1e2, 1e5),
    "RevolutionFrequency": (1e5, 1e8), "DampingTime": (-1.0, 1.0), "HarmonicNumber": (1, 1000),
    "InitialDistStep": (-5, 50), "InitialDistZoom": (0.2, 5.0), "BendingRadius": (-1.0, 50.0), "BeamEnergy": (1e8, 1e10),
    "BeamEnergySpread": (1e-5, 1e-2), "VacuumGap": (-0.1, 0.1), "CollimatorRadius": (-0.01, 0.05),
    "WallConductivity": (-1.0, 1e8), "WallSusceptibility": (-2.0, 10.0), "CutoffFreq": (0.0, 1e12),
    "AcceleratingVoltage": (1e5, 1e7), "RFAmplitudeSpread": (0.0, 1e-2), "RFPhaseSpread": (0.0, 1.0),
    "RFPhaseModAmplitude": (0.0, 10.0), "RFPhaseModFrequency": (0.0, 1e5), "cldev": (0, 3), "outstep": (0, 1000),
    "SavePhaseSpace": (0, 100), "StepsPerTs": (1, 5000), "StepsPerRevolution": (0.0, 10.0), "padding": (0.5, 16.0),
    "PhaseSpaceSize": (4.0, 24.0), "PhaseSpaceShiftX": (-20.0, 20.0), "PhaseSpaceShiftY": (-20.0, 20.0),
    "RenormalizeCharge": (-1, 100), "FPType": (0, 3), "FPTrack": (0, 3), "GridSize": (4, 1024), "rotations": (0.0, 100.0),
    "derivation": (3, 4), "InterpolationPoints": (1, 4),
}
FNAME = st.text(alphabet="abcdefghijklmnopqrstuvwxyzABCDEFGHIJKLMNOPQRSTUVWXYZ0123456789_.-", min_size=1, max_size=12).map(
    lambda s: ("f" + s) if s[0] in "-." else s)


def value_strategy(name):
    """legal values for an option; one draw in six is a 'special' value: the documented default given explicitly, an exact
    zero, or an end of the documented range (explicit-but-default and exact-zero values are where 'was it given?' logic
    and 'is it switched off?' logic part ways)"""
    base = _value_strategy(name)
    t = OPTS[name][0] if name in OPTS else IGNORED[name]
    if t not in ("f4", "f8", "u4", "i4", "i8") or name in IGNORED or name not in RANGE:
        return base
    from vlib import cfggen
    lo, hi = RANGE[name]
    special = []
    if name in cfggen.DEFAULTS and not isinstance(cfggen.DEFAULTS[name], (list, bool)):
        special.append(cfggen.DEFAULTS[name])
    if lo <= 0 <= hi:
        special.append(0)
    special += [lo, hi]
    if t in ("u4", "i4", "i8"):
        special = [int(x) for x in special if float(x) == int(x)]
    elif t == "f4":
        special = [float(np.float32(x)) for x in special]
    else:
        special = [float(x) for x in special]
    special = [x for x in special if lo <= x <= hi]
    if not special:
        return base
    return st.integers(0, 5).flatmap(lambda k: st.sampled_from(special) if k == 0 else base)


def _value_strategy(name):
    t = OPTS[name][0] if name in OPTS else IGNORED[name]
    if t == "b":
        return st.booleans()
    if t == "s":
        # "/dev/null" is the documented way to say "explicitly no file" for the results file and the start distribution:
        # the getters then report an empty name (round-4 seed C20d lives on exactly that value plus a loaded config file)
        if name == "output":
            return st.integers(0, 5).flatmap(lambda k: st.just("/dev/null") if k == 0 else FNAME.map(lambda s: s + ".h5"))
        if name == "InitialDistFile":
            return st.integers(0, 5).flatmap(lambda k: st.just("/dev/null") if k == 0 else FNAME.map(lambda s: s + ".txt"))
        if name == "tracking":
            # "/dev/null" is accepted and means "no particles are tracked"; the option value itself is reported as given
            return st.integers(0, 5).flatmap(lambda k: st.just("/dev/null") if k == 0 else FNAME)
        return FNAME
    if t == "vf4":
        return st.lists(st.one_of(st.just(0.0), st.floats(1e-5, 1e-1)), min_size=1, max_size=5).map(
            lambda l: [float(np.float32(x)) for x in l]).filter(lambda l: any(x > 0 for x in l))
    if name in IGNORED:
        return st.integers(0, 1000)
    lo, hi = RANGE[name]
    if t in ("u4", "i4", "i8"):
        return st.integers(int(lo), int(hi))
    if name == "SynchrotronFrequency":
        # 0 is legal and documented: "ignore, use alpha0" (round-3 seed C13c lives on an explicitly given zero)
        fl = st.floats(lo, hi, allow_nan=False).map(lambda x: float(np.float32(x)))
        return st.integers(0, 4).flatmap(lambda k: st.just(0.0) if k == 0 else fl)
    if t == "f4":
        return st.floats(lo, hi, allow_nan=False).map(lambda x: float(np.float32(x)))
    return st.floats(lo, hi, allow_nan=False)


def text_of(name, v):
    """the shortest text that parses back to exactly v for the option's type"""
    t = OPTS[name][0] if name in OPTS else IGNORED.get(name, OPTS.get(ALIASES.get(name, ""), ("f8",))[0])
    if isinstance(v, bool):
        return "1" if v else "0"
    if isinstance(v, int):
        return str(v)
    if isinstance(v, str):
        return v
    if t == "f4":
        return "%.9g" % v
    return repr(float(v))


SHORT = {"SynchrotronFrequency": "f", "RevolutionFrequency": "F", "DampingTime": "d", "HarmonicNumber": "H", "InitialDistFile": "i",
         "BunchCurrent": "I", "BendingRadius": "R", "BeamEnergy": "E", "BeamEnergySpread": "e", "Impedance": "Z", "VacuumGap": "G",
         "AcceleratingVoltage": "V", "output": "o", "outstep": "n", "StepsPerTs": "N", "padding": "p", "PhaseSpaceSize": "P",
         "GridSize": "s", "rotations": "T"}


def cli_args(assign, short=()):
    """short: names to be given through their one-letter option (value as a separate token; negative numbers keep the long form)"""
    out = []
    for k, v in assign.items():
        if k in short and k in SHORT and not isinstance(v, (list, bool)) and not str(text_of(k, v)).startswith("-"):
            out.extend(["-" + SHORT[k], text_of(k, v)])
            continue
        if isinstance(v, list):
            out.append("--" + k)
            out.extend(text_of(k, x) for x in v)
        else:
            out.append("--%s=%s" % (k, text_of(k, v)))
    return out


def cfg_text(assign):
    lines = []
    for k, v in assign.items():
        if isinstance(v, list):
            for x in v:
                lines.append("%s=%s" % (k, text_of(k, x)))
        else:
            lines.append("%s=%s" % (k, text_of(k, v)))
    return "\n".join(lines) + "\n"


def expected_getter(name, v):
    """value as the getter reports it (numbers as Python floats of the option's precision)"""
    t = OPTS[name][0]
    if t == "vf4":
        return [float(np.float32(x)) for x in v]
    if t == "b":
        return 1.0 if v else 0.0
    if t == "s":
        return "" if (v == "/dev/null" and name in ("output", "InitialDistFile")) else v
    if t == "f4":
        return float(np.float32(v))
    return float(v)


STRING_GETTERS = {"ImpedanceFile", "OutFile", "StartDistFile", "ParticleTracking"}


def decode_getters(d):
    out = {}
    for k, v in d.items():
        if isinstance(v, list):
            out[k] = [float.fromhex(x) for x in v]
        elif k in STRING_GETTERS:
            out[k] = v
        else:
            out[k] = float.fromhex(v)
    return out
