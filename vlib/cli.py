"""Run the rebuilt inovesa executable and read its HDF5 results (through the h5x helper)."""
import json
import os
import shutil
import signal
import subprocess
import numpy as np

DT = {"f4": np.float32, "f8": np.float64, "u4": np.uint32, "i4": np.int32, "S1": np.uint8, "raw": np.uint8}


class Run:
    def __init__(self, rc, out, err, workdir, timed_out=False):
        self.rc = rc
        self.out = out
        self.err = err
        self.workdir = workdir
        self.timed_out = timed_out
        self.signal = -rc if rc is not None and rc < 0 else 0

    def path(self, name):
        return os.path.join(self.workdir, name)


def scratch(tag):
    base = os.environ.get("VERIF_SCRATCH") or os.path.join(os.path.dirname(os.path.dirname(os.path.abspath(__file__))), ".scratch", "misc")
    d = os.path.join(base, tag)
    shutil.rmtree(d, ignore_errors=True)
    os.makedirs(d)
    return d


def _ignore_sigint():
    signal.signal(signal.SIGINT, signal.SIG_IGN)


def run(args, workdir, flavour="rel", env=None, timeout=300, stdin=None, sigint_ignored=False):
    """args: list of command-line arguments (without argv[0]).  Always passes '-c /dev/null' unless a config is given,
    so that no stray default.cfg is read."""
    exe = os.environ["VERIF_" + flavour.upper()]
    if any(isinstance(a, str) and a.endswith("zgen.dat") for a in args) and not os.path.exists(os.path.join(workdir, "zgen.dat")):
        write_zgen(os.path.join(workdir, "zgen.dat"))
    e = dict(os.environ)
    e.pop("INOVESA_VERIF_SIGINT_AT", None)
    e.pop("INOVESA_VERIF_IP_LOG", None)
    e.pop("INOVESA_VERIF_PRNG_SEED", None)
    if flavour == "san":
        e["ASAN_OPTIONS"] = "detect_leaks=0:abort_on_error=0:exitcode=99:allocator_may_return_null=1:detect_stack_use_after_return=0"
        e["UBSAN_OPTIONS"] = "print_stacktrace=1:halt_on_error=1:exitcode=98"
    if env:
        e.update(env)
    try:
        # sigint_ignored: the program inherits SIGINT as "ignored", as a background job of a non-interactive shell does
        p = subprocess.run([exe] + list(args), cwd=workdir, env=e, stdout=subprocess.PIPE, stderr=subprocess.PIPE,
                           timeout=timeout, stdin=subprocess.DEVNULL, preexec_fn=_ignore_sigint if sigint_ignored else None)
        return Run(p.returncode, p.stdout.decode(errors="replace"), p.stderr.decode(errors="replace"), workdir)
    except subprocess.TimeoutExpired as t:
        return Run(None, (t.stdout or b"").decode(errors="replace"), (t.stderr or b"").decode(errors="replace"), workdir, True)


def write_zgen(path, rows=8192):
    """the generated impedance table used by base_config's wake kind 'file': a smooth passive impedance, one row per
    frequency index (line number, real, imaginary); longer than any transform length the generators produce, the program
    takes the rows it needs"""
    k = np.arange(rows)
    zr = 200.0 * (1 + 0.3 * np.sin(k / 17.0))
    zi = 0.5 * k / rows * 100.0 * 200.0 / 100.0
    with open(path, "w") as f:
        for i in range(rows):
            f.write("%d %.9g %.9g\n" % (i, zr[i], zi[i]))


class H5:
    """all datasets of a result file as numpy arrays; attrs as floats (hex-exact) ; soft links"""

    def __init__(self, path):
        h5x = os.environ["VERIF_H5X"]
        d = path + ".dump"
        shutil.rmtree(d, ignore_errors=True)
        os.makedirs(d)
        p = subprocess.run([h5x, "dump", path, d], stdout=subprocess.PIPE, stderr=subprocess.PIPE)
        self.ok = p.returncode == 0
        self.err = p.stderr.decode(errors="replace")
        self.ds = {}
        self.attrs = {}
        self.links = {}
        self.shape = {}
        if self.ok:
            with open(os.path.join(d, "index.json")) as f:
                idx = json.load(f)
            for e in idx:
                if e["kind"] == "dataset":
                    a = np.fromfile(os.path.join(d, e["file"]), dtype=DT[e["dtype"]])
                    try:
                        a = a.reshape(e["shape"]) if e["shape"] else a
                    except ValueError:
                        pass
                    self.ds[e["name"]] = a
                    self.shape[e["name"]] = tuple(e["shape"])
                    self.attrs[e["name"]] = {k: _num(v) for k, v in e["attrs"].items()}
                elif e["kind"] == "group":
                    self.attrs[e["name"]] = {k: _num(v) for k, v in e["attrs"].items()}
                elif e["kind"] == "softlink":
                    self.links[e["name"]] = e["target"]
        shutil.rmtree(d, ignore_errors=True)

    def __getitem__(self, k):
        return self.ds[k]

    def __contains__(self, k):
        return k in self.ds

    def params(self):
        return self.attrs.get("/Info/Parameters", {})


def _num(v):
    if isinstance(v, str):
        return float.fromhex(v)
    return v


def mkds(path, dspath, array):
    """write a file with one float32 dataset (start distributions for -i)"""
    h5x = os.environ["VERIF_H5X"]
    raw = path + ".raw"
    a = np.ascontiguousarray(array, np.float32)
    a.tofile(raw)
    p = subprocess.run([h5x, "mkds", path, dspath, raw] + [str(int(d)) for d in a.shape], stdout=subprocess.PIPE,
                       stderr=subprocess.PIPE)
    os.remove(raw)
    if p.returncode != 0:
        raise RuntimeError("h5x mkds failed: " + p.stderr.decode())


def fmt(v):
    """number -> shortest text that round-trips (repr of a Python float / int)"""
    if isinstance(v, bool):
        return "1" if v else "0"
    if isinstance(v, str):
        return v
    if isinstance(v, (int, np.integer)):
        return str(int(v))
    return repr(float(v))


def optargs(opts):
    """dict -> ['--name=value', ...] ; list values become multitoken arguments"""
    out = []
    for k, v in opts.items():
        if v is None:
            continue
        if isinstance(v, (list, tuple)):
            out.append("--" + k)
            out.extend(fmt(x) for x in v)
        elif isinstance(v, str):
            out.append("--%s=%s" % (k, v))
        else:
            out.append("--%s=%s" % (k, fmt(v)))
    return out
