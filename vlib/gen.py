"""Shared generator / numeric helpers.

Convention: structure (sizes, kinds, offsets, parameters) is drawn by Hypothesis so that it shrinks;
bulk "texture" (thousands of grid values) is expanded deterministically from a Hypothesis-drawn
integer seed with numpy's PCG64, so that a case is a small JSON value and a pure function of it."""
import numpy as np
from hypothesis import strategies as st


def rng(seed):
    return np.random.Generator(np.random.PCG64(int(seed) & 0xFFFFFFFFFFFF))


def seeds():
    return st.integers(0, 2**31 - 1)


def sized_int(lo, hi):
    """integers in [lo,hi] that do not collapse at small Hypothesis sizes"""
    return st.integers(lo, hi)


def arbitrary_finite_f32(r, shape):
    """arbitrary finite binary32 values: all exponents incl. denormals, both signs"""
    bits = r.integers(0, 2**32, size=shape, dtype=np.uint64).astype(np.uint32)
    exp = (bits >> 23) & 0xFF
    bits = np.where(exp == 255, bits & np.uint32(0xBFFFFFFF), bits).astype(np.uint32)
    return bits.view(np.float32)


def moderate_f32(r, shape, kind):
    """signed / non-negative data of moderate dynamic range"""
    if kind == "noise":
        return r.standard_normal(shape).astype(np.float32)
    if kind == "pos":
        return r.random(shape).astype(np.float32)
    if kind == "altsign":
        v = r.random(shape)
        sgn = np.where((np.indices(shape).sum(axis=0) % 2) == 0, 1.0, -1.0)
        return (v * sgn).astype(np.float32)
    if kind == "impulse":
        v = np.zeros(shape, np.float32)
        idx = tuple(r.integers(0, s, size=max(1, v.size // 50)) for s in shape)
        v[idx] = r.standard_normal(len(idx[0])).astype(np.float32)
        return v
    raise ValueError(kind)


def offset_mixture(draw, lim):
    """one displacement (cells) from the mixture: integer, half, tiny, fractional, near the limit; either sign"""
    kind = draw(st.sampled_from(["int", "half", "tiny", "frac", "frac", "edge"]))
    lim = max(0.0, float(lim))
    if kind == "int":
        v = float(draw(st.integers(-int(lim), int(lim))))
    elif kind == "half":
        v = draw(st.integers(-int(lim), max(-int(lim), int(lim) - 1))) + 0.5
    elif kind == "tiny":
        v = draw(st.floats(-1e-3, 1e-3, allow_nan=False))
    elif kind == "frac":
        v = draw(st.floats(-lim, lim, allow_nan=False))
    else:
        s = draw(st.sampled_from([-1.0, 1.0]))
        v = s * (lim - draw(st.floats(0, min(1.0, lim), allow_nan=False)))
    if abs(v) > lim:
        v = float(np.sign(v) * lim)
    return float(np.float32(v))


def f32(x):
    return float(np.float32(x))


def bits(a):
    return np.ascontiguousarray(a, np.float32).view(np.uint32)


def ulp32(x):
    return float(np.spacing(np.float32(abs(x))))


def simpson_weights(n, delta):
    """the composite weights documented in PhaseSpace::simpsonWeights: delta/3 * {1,4,2,4,...,1}"""
    w = np.empty(n, np.float64)
    w[0] = 1
    w[-1] = 1
    for x in range(1, n - 1):
        w[x] = 4 if x % 2 == 1 else 2
    return w * (float(delta) / 3.0)


def lagrange_ref(f, it):
    """Lagrange basis on nodes {0},{0,1},{-1,0,1},{-1,0,1,2} in float64; f array"""
    f = np.asarray(f, np.float64)
    if it == 1:
        return np.ones(f.shape + (1,))
    if it == 2:
        return np.stack([1 - f, f], -1)
    if it == 3:
        return np.stack([f * (f - 1) / 2, 1 - f * f, f * (f + 1) / 2], -1)
    if it == 4:
        return np.stack([-f * (f - 1) * (f - 2) / 6, (f + 1) * (f - 1) * (f - 2) / 2,
                         -(f + 1) * f * (f - 2) / 2, (f + 1) * f * (f - 1) / 6], -1)
    raise ValueError(it)


# Transform lengths used by every generated ElectricField (API level) and, where the check controls the padded
# length, by CLI runs.  FFTW plans in PATIENT mode (0.05-5 s per new length) and stores wisdom per length; the pool
# keeps that cost bounded and lets /verif/wisdom ship pre-planned wisdom.  It contains powers of two, composites
# with several small factors, odd lengths and primes.
NPOOL = [16, 24, 31, 32, 45, 48, 61, 64, 81, 96, 100, 127, 128, 131, 150, 192, 200, 243, 256, 257, 300, 384, 389,
         450, 512, 640, 700, 768, 1009, 1024, 1536, 2048]


def npool_at_least(need, limit=None):
    return [N for N in NPOOL if N >= need and (limit is None or N <= limit)]


def is_prime(n):
    if n < 2:
        return False
    i = 2
    while i * i <= n:
        if n % i == 0:
            return False
        i += 1
    return True


def nclass(N):
    if N & (N - 1) == 0:
        return "pow2"
    if is_prime(N):
        return "prime"
    return "odd" if N % 2 else "composite"


def grid_size(draw, lo, hi, one_in=16):
    """grid size from the usual small range; one case in `one_in` uses a production-size grid around 256 (the program's
    default), so that anything keyed to 8-bit / 16-bit index ranges is exercised as well"""
    if draw(st.integers(0, one_in - 1)) == 0:
        return draw(st.sampled_from([255, 256, 257, 258, 272, 300, 320]))
    return draw(st.integers(lo, hi))


def field_layout(draw, nb, nmin=8, nmax=48, nlimit=1024, extra_buckets=3):
    """(n, bucket numbers, spacing, N): bunches at bucket*spacing, buckets not overlapping (spacing >= n), everything
    inside a transform length N taken from NPOOL.  Bucket numbers are formed as main.cpp does: reversed index of the
    non-empty entries of the filling pattern."""
    nbuckets = draw(st.integers(nb, nb + extra_buckets))
    occupied = sorted(draw(st.permutations(list(range(nbuckets))))[:nb])
    buckets = [nbuckets - 1 - i for i in occupied]
    mb = max(buckets)
    N = draw(st.sampled_from(npool_at_least(nmin * (mb + 1), nlimit)))
    n = draw(st.integers(nmin, max(nmin, min(nmax, N // (mb + 1)))))
    if mb > 0:
        spacing = draw(st.integers(n, max(n, (N - n) // mb)))
    else:
        spacing = draw(st.integers(0, 2 * n))
    assert mb * spacing + n <= N
    return n, buckets, spacing, N, nbuckets
