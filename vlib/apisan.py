"""API harness under AddressSanitizer + UndefinedBehaviorSanitizer (C17, clause "... of the API harness").

The generators of the API-level checks are sound by construction (they only produce inputs inside the domain the callers
respect), so a sanitizer report while one of their cases runs against the real classes is a memory error / undefined
behaviour inside the documented domain.  The semantic verdict of the borrowed check is ignored here (it is judged by that
check itself on the ordinary build); only the detector counts.

This module is the *child*: it is started by checks/c17.py as

    LD_PRELOAD=libasan.so VERIF_SHIM=<sanitized libivshim.so> python3-vt -m vlib.apisan <job.json>

with job = {prop, sub, seed, n, curfile, [inner]} and draws n cases of checks.<prop>.<sub>'s strategy with Hypothesis
(seeded, no database), writing every case to `curfile` before it is executed, so that the parent can recover the case
during which the process died.  With `inner` it executes exactly that case (replay / 3x re-execution)."""
import importlib
import json
import os
import sys
import time


def main():
    job = json.load(open(sys.argv[1]))
    from vlib.driver import canon, worker_env
    scratch = worker_env(int(job.get("wid", 70)))
    os.chdir(scratch)
    mod = importlib.import_module("checks." + job["prop"].lower())
    sub = [s for s in mod.subs("quick") if s.name == job["sub"]][0]
    cur = job["curfile"]
    count = [0]
    t_end = time.time() + float(job.get("wall", 1e9))

    def one(case):
        with open(cur, "w") as f:
            f.write(canon(case))
            f.flush()
            os.fsync(f.fileno())
        count[0] += 1
        try:
            sub.run(case)
        except Exception:
            # a Python-level exception of the borrowed oracle is that check's business, not a memory error
            pass

    if job.get("inner") is not None:
        for h in job.get("history") or []:
            one(h)
        one(job["inner"])
        print("APISAN-DONE %d" % count[0])
        return 0
    from hypothesis import given, settings, seed as hseed, HealthCheck, Phase

    class _Stop(BaseException):
        pass

    def body(case):
        if time.time() > t_end:
            raise _Stop()
        one(case)

    test = given(sub.strategy)(body)
    test = settings(max_examples=int(job["n"]), database=None, deadline=None, derandomize=False, print_blob=False,
                    suppress_health_check=list(HealthCheck), phases=[Phase.generate])(test)
    test = hseed(int(job["seed"]))(test)
    try:
        test()
    except _Stop:
        pass
    try:
        os.remove(cur)
    except OSError:
        pass
    print("APISAN-DONE %d" % count[0])
    return 0


if __name__ == "__main__":
    sys.exit(main())
