"""Generic runner for libFuzzer targets whose oracle lives inside the target (ORACLE-VIOLATION + trap, or a sanitizer
report).  One 'case' is one campaign {seed, runs, wall}; a failing campaign stores the artifact bytes in case['input_hex'],
which makes the case a replay of exactly that input (3x re-execution, regress files, --replay)."""
import os
import re
import shutil
import subprocess

from vlib import cli
from vlib.driver import Outcome

VERIF = os.path.dirname(os.path.dirname(os.path.abspath(__file__)))
SAN = re.compile(r"(ERROR: AddressSanitizer: ([a-zA-Z0-9_-]+)|runtime error: ([^\n]{0,80})|ERROR: libFuzzer: deadly signal)")
ORACLE = re.compile(r"ORACLE-VIOLATION: ([^\n]*(?:\n  [^\n]*){0,6})")


def default_sig(prefix, err):
    m = ORACLE.search(err)
    if m:
        head = re.sub(r"'[^']*'", "'..'", m.group(1).split("\n")[0])
        head = re.sub(r"\d+", "N", head)
        return "%s:fuzz:oracle:%s" % (prefix, head[:60])
    m = SAN.search(err)
    if m:
        fr = re.search(r"#\d+ 0x[0-9a-f]+ in (\S+) \S*/(?:src|inc)/(\S+?):\d+", err)
        return "%s:fuzz:san:%s:%s" % (prefix, m.group(2) or re.sub(r"-?\d+(\.\d+)?", "N", m.group(3) or "signal")[:50], fr.group(1)[:60] if fr else "?")
    return "%s:fuzz:other" % prefix


def make_runner(prefix, exe_env, corpus, max_len=1024, dictionary=None, wisdom=False, sig=None, extra_args=(), env_extra=None):
    """returns run(case) for a Sub.  corpus: list of bytes.  wisdom=True: XDG_DATA_HOME = private dir seeded with /verif/wisdom"""
    sig = sig or (lambda err: default_sig(prefix, err))

    def run(case):
        wd = cli.scratch(prefix + "fz")
        exe = os.environ[exe_env]
        env = dict(os.environ, VERIF_FUZZ_DIR=wd, ASAN_OPTIONS="detect_leaks=0:abort_on_error=0", UBSAN_OPTIONS="print_stacktrace=1:halt_on_error=1")
        env.update(env_extra or {})
        if wisdom:
            xdg = os.path.join(wd, "xdg")
            wis = os.path.join(xdg, "inovesa", "fftwisdom")
            os.makedirs(wis)
            for f in os.listdir(os.path.join(VERIF, "wisdom")):
                shutil.copy(os.path.join(VERIF, "wisdom", f), os.path.join(wis, f))
            env["XDG_DATA_HOME"] = xdg
        if case.get("input_hex") is not None:
            f = os.path.join(wd, "replay.bin")
            open(f, "wb").write(bytes.fromhex(case["input_hex"]))
            p = subprocess.run([exe, f], cwd=wd, env=env, stdout=subprocess.PIPE, stderr=subprocess.PIPE, timeout=300)
            err = p.stderr.decode(errors="replace")
            bad = p.returncode != 0 and (ORACLE.search(err) or SAN.search(err))
            m = ORACLE.search(err)
            return Outcome(not bad, True, ["fuzz_replay"], "fuzz input (%d bytes) reproduces: %s" % (len(case["input_hex"]) // 2, m.group(1) if m else err[-500:]),
                           sig=sig(err))
        cdir = os.path.join(wd, "corpus")
        os.makedirs(cdir)
        for i, sd in enumerate(corpus):
            open(os.path.join(cdir, "s%d" % i), "wb").write(sd)
        cmd = [exe, "-seed=%d" % case["seed"], "-runs=%d" % case["runs"], "-max_len=%d" % max_len, "-artifact_prefix=" + wd + "/",
               "-print_final_stats=1", "-timeout=60"] + list(extra_args)
        if dictionary:
            dp = os.path.join(wd, "dict.txt")
            open(dp, "w").write(dictionary)
            cmd.append("-dict=" + dp)
        cmd.append(cdir)
        try:
            p = subprocess.run(cmd, cwd=wd, env=env, stdout=subprocess.PIPE, stderr=subprocess.PIPE, timeout=case.get("wall", 600))
        except subprocess.TimeoutExpired:
            return Outcome(True, False, ["fuzz_timeout"], discard=True)
        err = p.stderr.decode(errors="replace")
        arts = [f for f in os.listdir(wd) if f.startswith("crash-") or f.startswith("leak-")]
        m = re.search(r"stat::number_of_executed_units: (\d+)", err)
        execs = int(m.group(1)) if m else 0
        cov = re.findall(r"cov: (\d+)", err)
        met = {"fuzz_execs:%d" % case["seed"]: execs, "fuzz_cov": int(cov[-1]) if cov else 0}
        if arts:
            data = open(os.path.join(wd, arts[0]), "rb").read()
            case["input_hex"] = data.hex()
            m = ORACLE.search(err)
            return Outcome(False, True, ["fuzz"], "libFuzzer found a failing input (%d bytes): %s" % (len(data), m.group(1) if m else err[-600:]),
                           sig=sig(err), metrics=met)
        if execs == 0:
            raise RuntimeError("fuzz target executed nothing: " + err[-800:])
        return Outcome(True, True, ["fuzz"], metrics=met)
    return run


def campaigns(tier, quick_runs, thorough_runs, k=16, seed0=5000, quick_wall=400, thorough_wall=2700):
    runs = quick_runs if tier == "quick" else thorough_runs
    return [dict(seed=seed0 + i, runs=runs, wall=quick_wall if tier == "quick" else thorough_wall) for i in range(k)]


def finalize(cov, agg, name):
    g = agg.get(name)
    if g is not None:
        cov[name + "_total_executions"] = int(sum(v for k, v in g["metrics"].items() if k.startswith("fuzz_execs:")))
        cov[name + "_edge_coverage"] = int(g["metrics"].get("fuzz_cov", 0))
        cov["per_subcheck"][name]["max_observed"] = {"fuzz_cov": g["metrics"].get("fuzz_cov", 0)}
