"""One driver for all checks: build, regressions, generated search (Hypothesis, sharded over processes),
shrinking, 3x re-execution, replay files, known findings, evidence."""
import hashlib
import importlib
import json
import multiprocessing as mp
import os
import shutil
import sys
import time
import traceback
from itertools import zip_longest

VERIF = os.path.dirname(os.path.dirname(os.path.abspath(__file__)))
sys.path.insert(0, VERIF)
import build as builder  # noqa: E402

DEFAULT_SEED = 20261002
HISTORY_MAX_S = 60.0     # histories are only kept (and replayed) while the process has spent less than this inside cases


def canon(obj):
    return json.dumps(obj, sort_keys=True, separators=(",", ":"), default=_jd)


def _jd(o):
    import numpy as np
    if isinstance(o, (np.integer,)):
        return int(o)
    if isinstance(o, (np.floating,)):
        return float(o)
    if isinstance(o, np.ndarray):
        return o.tolist()
    if isinstance(o, (set, frozenset)):
        return sorted(o)
    if isinstance(o, bytes):
        return o.hex()
    raise TypeError(type(o))


def case_hash(case):
    return hashlib.sha1(canon(case).encode()).hexdigest()[:16]


class Outcome:
    """result of running one case against the oracle"""

    def __init__(self, ok=True, nontrivial=False, classes=(), msg="", sig="", metrics=None, discard=False):
        self.ok = ok
        self.nontrivial = nontrivial
        self.classes = list(classes)
        self.msg = msg
        self.sig = sig  # narrow structural signature of a failure (for known-finding matching)
        self.metrics = metrics or {}
        self.discard = discard  # case could not be judged (counted, never a violation)


class Sub:
    """one sub-check: a strategy producing JSON-able cases, and a pure runner"""

    def __init__(self, name, strategy, run, quick, thorough, needs=("shim",), workers=None, shrink_budget=400,
                 max_wall=None, enum=None):
        self.name = name
        self.strategy = strategy
        self.run = run
        self.n = {"quick": quick, "thorough": thorough}
        self.needs = needs
        self.workers = workers
        self.shrink_budget = shrink_budget
        self.max_wall = max_wall or {"quick": 240, "thorough": 3000}
        self.enum = enum  # optional: tier -> list of cases to run exhaustively instead of the generated search


class _Abort(BaseException):
    pass


def worker_env(wid):
    """per-worker private XDG_DATA_HOME (FFTW wisdom is written by the code under test) and scratch dir"""
    xdg = os.path.join(VERIF, ".cache", "xdg", "w%02d" % wid)
    wis = os.path.join(xdg, "inovesa", "fftwisdom")
    os.makedirs(wis, exist_ok=True)
    seed_dir = os.path.join(VERIF, "wisdom")
    if os.path.isdir(seed_dir):
        for f in os.listdir(seed_dir):
            dst = os.path.join(wis, f)
            if not os.path.exists(dst):
                shutil.copy(os.path.join(seed_dir, f), dst)
    os.environ["XDG_DATA_HOME"] = xdg
    scratch = os.path.join(VERIF, ".scratch", "w%02d_%d" % (wid, os.getpid()))
    os.makedirs(scratch, exist_ok=True)
    os.environ["VERIF_SCRATCH"] = scratch
    return scratch


def _worker(args):
    (prop, subname, seed, nex, tier, wid, arts, known, max_wall, cases) = args
    t0 = time.time()
    deadline = t0 + max_wall          # counted from the moment this worker starts, not from the moment it was queued
    res = dict(sub=subname, wid=wid, evaluations=0, nontrivial=[], classes={}, metrics={}, samples=[], failure=None,
               error=None, inconclusive=False, known_hits={}, discards=0, seed=seed)
    scratch = None
    try:
        for k, v in arts.items():
            os.environ["VERIF_" + k.upper()] = v
        scratch = worker_env(wid)
        os.chdir(scratch)
        from hypothesis import given, settings, seed as hseed, HealthCheck, Phase
        mod = importlib.import_module("checks." + prop.lower())
        sub = [s for s in mod.subs(tier) if s.name == subname][0]
        ntset = set()
        curfile = os.path.join(VERIF, ".cache", "current", "%s_%s_%d.json" % (prop, subname, wid))
        os.makedirs(os.path.dirname(curfile), exist_ok=True)
        state = dict(fail_case=None, fail_out=None, after_fail=0, history=None)
        executed = []          # every case this process has run so far (for history-dependent failures)
        spent = [0.0]

        def body(case):
            if time.time() > deadline:
                res["inconclusive"] = True
                raise _Abort()
            if state["fail_case"] is not None:
                state["after_fail"] += 1
                if state["after_fail"] > sub.shrink_budget:
                    raise _Abort()
            try:
                with open(curfile, "w") as cf:
                    cf.write(canon(case))
            except Exception:
                pass
            tc = time.time()
            out = sub.run(case)
            spent[0] += time.time() - tc
            res["evaluations"] += 1
            if not out.ok:
                state["history_now"] = list(executed) if spent[0] < HISTORY_MAX_S else None
            executed.append(case)
            if out.discard:
                res["discards"] += 1
                for c in out.classes:
                    res["classes"]["discarded:" + c] = res["classes"].get("discarded:" + c, 0) + 1
                return
            for c in out.classes:
                res["classes"][c] = res["classes"].get(c, 0) + 1
            for k, v in out.metrics.items():
                if v is None:
                    continue
                cur = res["metrics"].get(k)
                if cur is None or v > cur:
                    res["metrics"][k] = float(v)
            if out.nontrivial:
                h = case_hash(case)
                if h not in ntset:
                    ntset.add(h)
                    if len(res["samples"]) < 3:
                        res["samples"].append(case)
            if not out.ok:
                for kf in known:
                    if kf.get("status") == "known" and kf.get("sig") == out.sig and out.sig:
                        res["known_hits"][out.sig] = res["known_hits"].get(out.sig, 0) + 1
                        return
                state["fail_case"] = case
                state["fail_out"] = dict(msg=out.msg, sig=out.sig)
                state["history"] = state.get("history_now")
                raise AssertionError(out.msg)

        if cases is not None:
            res["enumerated"] = len(cases)
            try:
                for c in cases:
                    body(c)
            except _Abort:
                pass
            except AssertionError:
                pass
            if state["fail_case"] is not None:
                res["failure"] = dict(case=state["fail_case"], history=state["history"], **state["fail_out"])
            res["nontrivial"] = sorted(ntset)
            res["wall"] = time.time() - t0
            shutil.rmtree(scratch, ignore_errors=True) if res.get("failure") is None else None
            return res
        test = given(sub.strategy)(body)
        test = settings(max_examples=nex, database=None, deadline=None, derandomize=False,
                        report_multiple_bugs=False, print_blob=False,
                        suppress_health_check=list(HealthCheck),
                        phases=[Phase.generate, Phase.shrink])(test)
        test = hseed(seed)(test)
        try:
            test()
        except _Abort:
            pass
        except AssertionError:
            pass
        except Exception as e:  # harness problem or flaky oracle
            if state["fail_case"] is None:
                res["error"] = "".join(traceback.format_exception(type(e), e, e.__traceback__))[-3000:]
            else:
                res["flaky_note"] = repr(e)[:500]
        if state["fail_case"] is not None:
            res["failure"] = dict(case=state["fail_case"], history=state["history"], **state["fail_out"])
        res["nontrivial"] = sorted(ntset)
    except BaseException as e:
        res["error"] = "".join(traceback.format_exception(type(e), e, e.__traceback__))[-3000:]
    finally:
        if scratch and res.get("failure") is None:
            shutil.rmtree(scratch, ignore_errors=True)
    res["wall"] = time.time() - t0
    return res


def _child(func, arg, conn):
    try:
        conn.send(func(arg))
    except BaseException as e:  # pragma: no cover
        try:
            conn.send(dict(_child_exception="".join(traceback.format_exception(type(e), e, e.__traceback__))[-2000:]))
        except Exception:
            pass
    finally:
        conn.close()


def run_jobs(func, args_list, nproc, ctx, hard_timeout=None):
    """Run func(arg) for every arg, each in its OWN process (at most nproc at a time).  Unlike multiprocessing.Pool this
    survives a worker that dies (segfault in the code under test, sanitizer abort): the job then yields
    {"_crashed": exit code}.  A job exceeding hard_timeout is terminated and yields {"_timeout": True}."""
    results = [None] * len(args_list)
    pending = list(range(len(args_list)))
    running = {}
    while pending or running:
        while pending and len(running) < nproc:
            i = pending.pop(0)
            pc, cc = ctx.Pipe(duplex=False)
            pr = ctx.Process(target=_child, args=(func, args_list[i], cc))
            pr.start()
            cc.close()
            running[i] = (pr, pc, time.time())
        done = []
        for i, (pr, pc, t0) in running.items():
            try:
                if pc.poll(0.02):
                    results[i] = pc.recv()
                    pr.join(10)
                    if pr.is_alive():
                        pr.terminate()
                    done.append(i)
                    continue
            except (EOFError, OSError):
                pass
            if not pr.is_alive():
                try:
                    if pc.poll(0.2):
                        results[i] = pc.recv()
                    else:
                        results[i] = dict(_crashed=pr.exitcode)
                except (EOFError, OSError):
                    results[i] = dict(_crashed=pr.exitcode)
                pr.join()
                done.append(i)
            elif hard_timeout and time.time() - t0 > hard_timeout:
                pr.terminate()
                pr.join(5)
                if pr.is_alive():
                    pr.kill()
                results[i] = dict(_timeout=True)
                done.append(i)
        for i in done:
            try:
                running[i][1].close()
            except Exception:
                pass
            del running[i]
    return results


def load_known(prop):
    p = os.path.join(VERIF, "known_findings.json")
    if not os.path.exists(p):
        return []
    with open(p) as f:
        data = json.load(f)
    return [k for k in data.get("findings", []) if k.get("property") == prop]


def run_case_isolated(args):
    """execute one stored case in a fresh process (replay / regress)"""
    prop, subname, case, tier, arts, wid = args[:6]
    history = args[6] if len(args) > 6 else None
    try:
        for k, v in arts.items():
            os.environ["VERIF_" + k.upper()] = v
        scratch = worker_env(wid)
        os.chdir(scratch)
        mod = importlib.import_module("checks." + prop.lower())
        sub = [s for s in mod.subs(tier) if s.name == subname][0]
        for h in history or []:
            # earlier cases of the same process: their own verdicts do not matter here, only the state they leave behind
            try:
                sub.run(h)
            except Exception:
                pass
        out = sub.run(case)
        shutil.rmtree(scratch, ignore_errors=True)
        return dict(ok=out.ok, msg=out.msg, sig=out.sig, discard=out.discard)
    except BaseException as e:
        return dict(ok=None, msg="harness error: " + "".join(traceback.format_exception(type(e), e, e.__traceback__))[-2000:], sig="")


def replay3(prop, subname, case, tier, arts, pool_ctx, history=None):
    outs = []
    for i in range(3):
        o = run_jobs(run_case_isolated, [(prop, subname, case, tier, arts, 90 + i, history)], 1, pool_ctx, hard_timeout=3600)[0]
        outs.append(_norm_isolated(o))
    return outs


def shrink_history(prop, subname, case, history, sig, tier, arts, pool_ctx, budget=48):
    """The case passes in a fresh process but failed inside a worker: find a short list of earlier cases of that
    worker after which it fails again (delta debugging over the history; every trial in a fresh process).
    Returns the shortened history, or None when even the full history does not reproduce the failure."""
    runs = [0]

    def fails(hist):
        runs[0] += 1
        o = _norm_isolated(run_jobs(run_case_isolated, [(prop, subname, case, tier, arts, 80 + runs[0] % 8, hist)], 1, pool_ctx, hard_timeout=1800)[0])
        return o["ok"] is False and (not sig or o.get("sig") == sig)
    if not history or not fails(history):
        return None
    hist = list(history)
    n = 2
    while len(hist) >= 1 and runs[0] < budget:
        chunk = max(1, len(hist) // n)
        parts = [hist[i:i + chunk] for i in range(0, len(hist), chunk)]
        reduced = False
        for part in parts:                      # a single chunk suffices?
            if runs[0] >= budget:
                break
            if len(parts) > 1 and fails(part):
                hist, n, reduced = part, 2, True
                break
        if not reduced:
            for i in range(len(parts)):         # or the complement of one chunk
                if runs[0] >= budget or len(parts) <= 2:
                    break
                comp = [c for j, pt in enumerate(parts) if j != i for c in pt]
                if fails(comp):
                    hist, n, reduced = comp, max(n - 1, 2), True
                    break
        if not reduced:
            if chunk == 1:
                break
            n = min(len(hist), n * 2)
    return hist


def _norm_isolated(o):
    """a process that died while executing the case is a failing execution of that case"""
    if o is None or "_timeout" in o:
        return dict(ok=None, msg="timeout", sig="", discard=True)
    if "_crashed" in o:
        return dict(ok=False, msg="the process executing this case died (exit code %s: signal / sanitizer abort inside the code under test)" % o["_crashed"],
                    sig="crash:exit%s" % o["_crashed"], discard=False)
    if "_child_exception" in o:
        return dict(ok=None, msg="harness error: " + o["_child_exception"], sig="", discard=False)
    return o


def main(argv=None):
    import argparse
    ap = argparse.ArgumentParser()
    ap.add_argument("prop")
    ap.add_argument("--tier", default=os.environ.get("VERIF_TIER", "quick"), choices=["quick", "thorough"])
    ap.add_argument("--replay")
    ap.add_argument("--only", help="comma separated sub-check names")
    ap.add_argument("--scale", type=float, default=1.0, help="scale example counts (development)")
    a = ap.parse_args(argv)
    prop = a.prop.upper()
    tier = a.tier
    t0 = time.time()
    try:
        seed = int(os.environ.get("VERIF_SEED", "0") or 0)
    except ValueError:
        seed = 0
    if seed == 0:
        seed = DEFAULT_SEED
    mod = importlib.import_module("checks." + prop.lower())
    subs = mod.subs(tier)
    if a.only:
        subs = [s for s in subs if s.name in a.only.split(",")]
    needs = sorted({n for s in subs for n in s.needs})
    arts = {}
    try:
        for n in needs:
            arts[n] = builder.build(n)
    except RuntimeError as e:
        # a tree that does not compile cannot be judged; report, do not claim a violation
        print("BUILD-FAILED property=%s\n%s" % (prop, str(e)[:3000]))
        write_evidence(prop, tier, seed, mod, dict(evaluations=0, distinct_nontrivial=0, samples=[], note="build failed"),
                       time.time() - t0, 0)
        return 2
    ctx = mp.get_context("fork")
    known = load_known(prop)
    violations = []
    known_lines = []

    # ---- replay mode
    if a.replay:
        with open(a.replay) as f:
            rp = json.load(f)
        outs = replay3(prop, rp["sub"], rp["case"], tier, arts, ctx, rp.get("history"))
        bad = [o for o in outs if o["ok"] is False]
        print(json.dumps(outs, indent=1)[:4000])
        if len(bad) == 3:
            print("VIOLATION property=%s replay=%s" % (prop, a.replay))
            return 1
        print("replay passes (%d/3 failing)" % len(bad))
        return 0

    # ---- stored regressions first (shrunk failures from development, planted-mutant witnesses, fixed findings)
    regress_dir = os.path.join(VERIF, "regress", prop)
    n_regress = 0
    if os.path.isdir(regress_dir):
        files = sorted(f for f in os.listdir(regress_dir) if f.endswith(".json"))
        jobs = []
        for i, f in enumerate(files):
            with open(os.path.join(regress_dir, f)) as fh:
                rp = json.load(fh)
            if rp["sub"] not in [s.name for s in subs]:
                continue
            jobs.append((f, rp))
        outs = [_norm_isolated(o) for o in run_jobs(run_case_isolated, [(prop, rp["sub"], rp["case"], tier, arts, 60 + (i % 30), rp.get("history")) for i, (f, rp) in enumerate(jobs)],
                                                    min(16, max(1, len(jobs))), ctx, hard_timeout=3600)]
        for (f, rp), o in zip(jobs, outs):
            n_regress += 1
            if o["ok"] is False:
                path = os.path.join(regress_dir, f)
                # confirm 3x
                o3 = replay3(prop, rp["sub"], rp["case"], tier, arts, ctx, rp.get("history"))
                if all(x["ok"] is False for x in o3):
                    violations.append((path, o["msg"]))
            elif o["ok"] is None:
                print("HARNESS-ERROR regress %s: %s" % (f, o["msg"][:1500]))

    # ---- known findings: re-execute each stored witness
    for kf in known:
        if kf.get("status") != "known":
            continue
        w = kf.get("witness")
        if not w:
            continue
        o3 = replay3(prop, w["sub"], w["case"], tier, arts, ctx)
        if all(x["ok"] is False and x["sig"] == kf.get("sig") for x in o3):
            line = "KNOWN-FINDING: property=%s %s" % (prop, kf["what"])
            known_lines.append(line)
            print(line)
        elif all(x["ok"] for x in o3):
            print("KNOWN-FINDING-RESOLVED: property=%s %s (witness now passes)" % (prop, kf["what"]))
        else:
            # witness fails differently -> not the listed finding any more
            path = save_replay(prop, w["sub"], w["case"], "known-witness-changed")
            violations.append((path, "known-finding witness now fails differently: " + o3[0]["msg"]))

    # ---- generated search
    total_workers = int(os.environ.get("VERIF_WORKERS", "16"))
    jobs = []
    enumerated_subs = []
    wid = 0
    per_sub = max(1, total_workers // max(1, len(subs)))
    deadline = {}
    for s in subs:
        nw = s.workers or per_sub
        nex_total = max(1, int(s.n[tier] * a.scale))
        nw = max(1, min(nw, nex_total))
        dl = s.max_wall[tier]
        enum_cases = s.enum(tier) if s.enum else None
        if enum_cases is not None:
            nw = max(1, min(total_workers, len(enum_cases)))
            for i in range(nw):
                jobs.append((prop, s.name, 0, 0, tier, wid % 48, arts, known, dl, enum_cases[i::nw]))
                wid += 1
            enumerated_subs.append(s.name)
            continue
        for i in range(nw):
            nex = nex_total // nw + (1 if i < nex_total % nw else 0)
            wseed = int(hashlib.sha256(("%d/%s/%s/%d" % (seed, prop, s.name, i)).encode()).hexdigest()[:12], 16)
            jobs.append((prop, s.name, wseed, nex, tier, wid % 48, arts, known, dl, None))
            wid += 1
    # interleave the sub-checks' workers (round robin), so that a sub-check with many long jobs (fuzz campaigns) cannot
    # occupy every slot while the others wait
    by_sub = {}
    for j in jobs:
        by_sub.setdefault(j[1], []).append(j)
    jobs = [j for grp in zip_longest(*by_sub.values()) for j in grp if j is not None]
    raw = run_jobs(_worker, jobs, min(total_workers, max(1, len(jobs))), ctx,
                   hard_timeout=max(s.max_wall[tier] for s in subs) + 900)
    results = []
    for job, r in zip(jobs, raw):
        if r is not None and "_crashed" not in r and "_timeout" not in r and "_child_exception" not in r:
            results.append(r)
            continue
        base = dict(sub=job[1], wid=job[5], evaluations=0, nontrivial=[], classes={}, metrics={}, samples=[], failure=None,
                    error=None, inconclusive=False, known_hits={}, discards=0, seed=job[2], wall=0.0)
        if r is not None and "_crashed" in r:
            # the worker died inside the code under test: the case it was executing is on disk
            cur = os.path.join(VERIF, ".cache", "current", "%s_%s_%d.json" % (prop, job[1], job[5]))
            try:
                case = json.load(open(cur))
                base["failure"] = dict(case=case, msg="worker process died (exit code %s) while executing this case" % r["_crashed"],
                                       sig="crash:exit%s" % r["_crashed"])
                base["evaluations"] = 1
            except Exception:
                base["error"] = "worker died (exit code %s) and the case it was executing could not be recovered" % r["_crashed"]
        elif r is not None and "_timeout" in r:
            base["inconclusive"] = True
        else:
            base["error"] = (r or {}).get("_child_exception", "worker returned nothing")
        results.append(base)

    # ---- aggregate
    agg = {}
    errors = []
    for r in results:
        g = agg.setdefault(r["sub"], dict(evaluations=0, nontrivial=set(), classes={}, metrics={}, samples=[], failures=[],
                                           inconclusive=False, known_hits={}, discards=0, wall=0.0))
        g["evaluations"] += r["evaluations"]
        g["nontrivial"].update(r["nontrivial"])
        g["discards"] += r["discards"]
        g["wall"] = max(g["wall"], r.get("wall", 0))
        g["inconclusive"] |= r["inconclusive"]
        for k, v in r["classes"].items():
            g["classes"][k] = g["classes"].get(k, 0) + v
        for k, v in r["metrics"].items():
            g["metrics"][k] = max(g["metrics"].get(k, v), v)
        for k, v in r["known_hits"].items():
            g["known_hits"][k] = g["known_hits"].get(k, 0) + v
        if len(g["samples"]) < 4:
            g["samples"].extend(r["samples"][:2])
        if r["failure"]:
            g["failures"].append(r["failure"])
        if r["error"]:
            errors.append((r["sub"], r["error"]))
    flaky = []
    for sname, g in agg.items():
        seen_sigs = set()
        # one report per failure signature (root cause), smallest case first
        for fl in sorted(g["failures"], key=lambda f: len(canon(f["case"]))):
            key = fl["sig"] or canon(fl["case"])
            if key in seen_sigs:
                continue
            seen_sigs.add(key)
            o3 = replay3(prop, sname, fl["case"], tier, arts, ctx)
            nbad = sum(1 for x in o3 if x["ok"] is False)
            hist = None
            if nbad == 0 and fl.get("history"):
                # passes alone, failed inside a worker that had run other cases before: state left behind by earlier
                # cases in the code under test (function-local statics, caches) is part of the input -> look for it
                hist = shrink_history(prop, sname, fl["case"], fl["history"], fl["sig"], tier, arts, ctx)
                if hist is not None:
                    oh = replay3(prop, sname, fl["case"], tier, arts, ctx, hist)
                    if not all(x["ok"] is False for x in oh):
                        hist = None
            if nbad == 3:
                path = save_replay(prop, sname, fl["case"], fl["msg"])
                violations.append((path, fl["msg"]))
            elif hist is not None:
                msg = ("history-dependent: the case passes in a fresh process and fails (3/3) when %d earlier case(s) were executed in the same process before it: %s"
                       % (len(hist), fl["msg"]))
                path = save_replay(prop, sname, fl["case"], msg, history=hist)
                violations.append((path, msg))
            else:
                flaky.append(dict(sub=sname, case=fl["case"], msg=fl["msg"], refail=nbad))
                print("FLAKY-ORACLE (not a violation; %d/3 re-executions fail) sub=%s msg=%s" % (nbad, sname, fl["msg"][:300]))

    evaluations = sum(g["evaluations"] for g in agg.values()) + n_regress
    distinct = sum(len(g["nontrivial"]) for g in agg.values())
    health = []
    for sname, g in agg.items():
        if g["evaluations"] and len(g["nontrivial"]) < 0.3 * (g["evaluations"] - g["discards"]) and not g["failures"]:
            health.append("%s: only %d of %d cases non-trivial" % (sname, len(g["nontrivial"]), g["evaluations"]))
        if g["inconclusive"]:
            health.append("%s: wall-clock budget reached, search cut short (inconclusive, not a violation)" % sname)
    for sname, e in errors:
        health.append("%s: harness error: %s" % (sname, e[-600:]))
        print("HARNESS-ERROR sub=%s\n%s" % (sname, e))
    cov = dict(
        evaluations=int(evaluations),
        distinct_nontrivial=int(distinct),
        rule=getattr(mod, "RULE", ""),
        samples=[dict(sub=s, case=c) for s, g in agg.items() for c in g["samples"][:2]][:8],
        per_subcheck={s: dict(evaluations=g["evaluations"], distinct_nontrivial=len(g["nontrivial"]),
                              classes=dict(sorted(g["classes"].items())), max_observed=g["metrics"],
                              excluded_known_hits=g["known_hits"], discarded=g["discards"],
                              wall_s=round(g["wall"], 1), inconclusive=g["inconclusive"]) for s, g in agg.items()},
        regressions_replayed=n_regress,
        known_finding_lines=known_lines,
        flaky=flaky[:5],
        health=health,
        exhaustive=False,
        tolerances=getattr(mod, "TOLERANCES", {}),
        enumerated_subchecks=enumerated_subs,
    )
    if hasattr(mod, "finalize"):
        try:
            mod.finalize(cov, agg, tier)
        except Exception as e:  # pragma: no cover
            cov.setdefault("health", []).append("finalize error %r" % (e,))
    write_evidence(prop, tier, seed, mod, cov, time.time() - t0, len(violations))
    for h in health:
        print("HEALTH: " + h)
    print("%s %s: %d evaluations, %d distinct non-trivial, %d regressions, %.1fs" %
          (prop, tier, evaluations, distinct, n_regress, time.time() - t0))
    shutil.rmtree(os.path.join(VERIF, ".scratch"), ignore_errors=True) if not violations else None
    if violations:
        for path, msg in violations:
            print("  failing: %s" % msg[:1000])
            print("VIOLATION property=%s replay=%s" % (prop, path))
        return 1
    if errors and evaluations == n_regress:
        return 2
    return 0


def save_replay(prop, subname, case, msg, history=None):
    d = os.environ.get("VERIF_REPLAY_DIR") or os.path.join(VERIF, "replays")
    os.makedirs(d, exist_ok=True)
    h = case_hash(dict(sub=subname, case=case, history=history))
    path = os.path.join(d, "%s-%s.json" % (prop, h))
    rec = dict(property=prop, sub=subname, case=case, msg=msg)
    if history:
        rec["history"] = history      # executed first, in the same process
    with open(path, "w") as f:
        json.dump(rec, f, indent=1, default=_jd)
    return path


def write_evidence(prop, tier, seed, mod, cov, wall, nviol):
    d = os.environ.get("VERIF_EVIDENCE_DIR") or os.path.join(VERIF, "evidence")
    os.makedirs(d, exist_ok=True)
    ev = dict(property_id=prop, tier=tier, seed=int(seed), level=getattr(mod, "LEVEL", "exploration"),
              coverage=cov, assumptions=getattr(mod, "ASSUMPTIONS", []), wall_s=round(wall, 2), violations=int(nviol))
    tmp = os.path.join(d, prop + ".json.tmp%d" % os.getpid())
    with open(tmp, "w") as f:
        json.dump(ev, f, indent=1, default=_jd)
    os.replace(tmp, os.path.join(d, prop + ".json"))


if __name__ == "__main__":
    sys.exit(main())
