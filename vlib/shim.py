"""ctypes binding of libivshim.so (built from /repo's working tree by build.py)."""
import ctypes as C
import json
import os
import numpy as np

F32P = np.ctypeslib.ndpointer(dtype=np.float32, flags="C_CONTIGUOUS")
F64P = np.ctypeslib.ndpointer(dtype=np.float64, flags="C_CONTIGUOUS")
U32P = np.ctypeslib.ndpointer(dtype=np.uint32, flags="C_CONTIGUOUS")


class ShimError(Exception):
    pass


class Shim:
    def __init__(self, path):
        self.lib = L = C.CDLL(path, mode=C.RTLD_GLOBAL)
        L.iv_last_error.restype = C.c_char_p
        L.iv_coeff.argtypes = [C.c_float, C.c_int, F32P]
        L.iv_coeff_block.argtypes = [C.c_uint32, C.c_uint32, C.c_int, F32P]
        L.iv_ps_new.argtypes = [C.c_float, C.c_float, C.c_double, C.c_float, C.c_float, C.c_double,
                                C.c_double, C.c_double, F32P, C.c_int, C.c_double, C.c_void_p]
        L.iv_ps_data.restype = C.POINTER(C.c_float)
        L.iv_ps_get.argtypes = [C.c_int, C.c_int, F32P]
        L.iv_ps_set_projection.argtypes = [C.c_int, C.c_int, C.c_int, F32P]
        L.iv_ps_xy.argtypes = [C.c_int, C.c_float, C.c_float, F32P]
        L.iv_map_set_offset.argtypes = [C.c_int, F32P, C.c_int]
        L.iv_map_force.argtypes = [C.c_int, F32P, C.c_int]
        L.iv_map_ramp_offset.argtypes = [C.c_int, F32P, F32P, C.c_int, C.c_int]
        L.iv_map_rf_linear.argtypes = [C.c_int, C.c_int, C.c_float, C.c_float, C.c_int, C.c_int]
        L.iv_map_rf_sin.argtypes = [C.c_int, C.c_int, C.c_float, C.c_float, C.c_float, C.c_float, C.c_int, C.c_int]
        L.iv_map_dynrf_linear.argtypes = [C.c_int, C.c_int, C.c_uint, C.c_uint, C.c_float, C.c_double, C.c_double,
                                          C.c_float, C.c_float, C.c_float, C.c_double, C.c_uint, C.c_int, C.c_int]
        L.iv_map_dynrf_sin.argtypes = [C.c_int, C.c_int, C.c_uint, C.c_uint, C.c_double, C.c_double, C.c_double,
                                       C.c_double, C.c_float, C.c_float, C.c_float, C.c_double, C.c_uint,
                                       C.c_int, C.c_int]
        L.iv_map_dyn_past.argtypes = [C.c_int, F32P, C.c_int]
        L.iv_map_drift.argtypes = [C.c_int, C.c_int, F32P, C.c_int, C.c_float, C.c_int, C.c_int]
        L.iv_map_fp.argtypes = [C.c_int, C.c_int, C.c_uint, C.c_uint, C.c_int, C.c_int, C.c_float, C.c_int]
        L.iv_map_rotation.argtypes = [C.c_int, C.c_int, C.c_uint, C.c_uint, C.c_float, C.c_int, C.c_int, C.c_uint]
        L.iv_map_apply_to.argtypes = [C.c_int, F32P, C.c_int]
        L.iv_imp_array.argtypes = [F32P, C.c_uint, C.c_float]
        L.iv_imp_add.argtypes = [C.c_int, C.c_int]
        L.iv_imp_file.argtypes = [C.c_char_p, C.c_double]
        L.iv_imp_model.argtypes = [C.c_int, C.c_uint, C.c_float, F64P]
        L.iv_imp_make.argtypes = [C.c_uint, C.c_float, C.c_double, C.c_double, C.c_double, C.c_int, C.c_double,
                                  C.c_double, C.c_double, C.c_char_p]
        L.iv_imp_size.restype = C.c_uint
        L.iv_imp_nfreqs.restype = C.c_uint
        L.iv_imp_data.argtypes = [C.c_int, F32P]
        L.iv_imp_ruler_delta.restype = C.c_double
        L.iv_ef_csr.argtypes = [C.c_int, C.c_int, U32P, C.c_int, C.c_uint, C.c_double, C.c_float]
        L.iv_ef_wake.argtypes = [C.c_int, C.c_int, U32P, C.c_int, C.c_uint, C.c_double, C.c_float,
                                 C.c_double, C.c_double, C.c_double, C.c_double]
        L.iv_ef_do.argtypes = [C.c_int, C.c_int, C.c_float]
        L.iv_ef_get.argtypes = [C.c_int, C.c_int, F32P]
        L.iv_ef_info.argtypes = [C.c_int, F64P]
        L.iv_opts_parse.argtypes = [C.c_int, C.POINTER(C.c_char_p)]
        L.iv_opts_save.argtypes = [C.c_int, C.c_char_p]
        L.iv_opts_json.argtypes = [C.c_int, C.c_char_p, C.c_int]
        L.iv_ps_from_txt.argtypes = [C.c_char_p, C.c_int64, C.c_float, C.c_float, C.c_float, C.c_float,
                                     C.c_double, C.c_double, C.c_double, C.c_double]
        L.iv_upper_power_of_two.restype = C.c_uint64
        L.iv_upper_power_of_two.argtypes = [C.c_uint64]
        L.iv_silence(1)
        self.n = 0
        self.nb = 0

    # -- helpers
    def err(self):
        return self.lib.iv_last_error().decode(errors="replace")

    def _ck(self, rv, what=""):
        if rv < 0:
            raise ShimError("%s: %s" % (what, self.err()))
        return rv

    def reset(self, n, nb=1):
        self._ck(self.lib.iv_reset(int(n), int(nb)), "reset")
        self.n, self.nb = int(n), int(nb)
        self._map_in = {}
        self._napply = 0
        self._refresh = 0

    def resize_only(self, n, nb):
        self.lib.iv_resize_only(int(n), int(nb))
        self.n, self.nb = int(n), int(nb)

    def free_all(self):
        self.lib.iv_free_all()

    # -- weights
    def coeff(self, f, it):
        out = np.zeros(4, np.float32)
        self.lib.iv_coeff(np.float32(f), it, out)
        return out[:it].copy()

    def coeff_block(self, startbits, count, it):
        out = np.empty(count * it, np.float32)
        self.lib.iv_coeff_block(int(startbits), int(count), it, out)
        return out.reshape(count, it)

    # -- phase space
    def ps_new(self, qmin, qmax, pmin, pmax, filling=(1.0,), zoom=1.0, data=None, qscale=1.0, pscale=1.0,
               charge=1.0, current=1.0):
        fl = np.ascontiguousarray(filling, np.float32)
        dp = None
        if data is not None:
            data = np.ascontiguousarray(data, np.float32)
            assert data.size == self.nb * self.n * self.n, (data.size, self.nb, self.n)
            dp = data.ctypes.data_as(C.c_void_p)
        return self._ck(self.lib.iv_ps_new(qmin, qmax, qscale, pmin, pmax, pscale, charge, current, fl, len(fl),
                                           zoom, dp), "ps_new")

    def ps_copy(self, h):
        return self._ck(self.lib.iv_ps_copy(h), "ps_copy")

    def ps_data(self, h):
        """numpy view (nb,n,n) onto the live grid data"""
        p = self.lib.iv_ps_data(h)
        return np.ctypeslib.as_array(p, shape=(self.nb, self.n, self.n))

    def ps_op(self, h, op):
        ops = dict(updateX=0, updateY=1, integrate=2, normalize=3, integrateAndNormalize=4, variance0=5, variance1=6,
                   average0=7, average1=8)
        self._ck(self.lib.iv_ps_op(h, ops[op]), op)

    def ps_get(self, h, what):
        spec = dict(integral=(0, 1), filling=(1, self.nb), setfilling=(2, self.nb), mean0=(3, self.nb),
                    var0=(4, self.nb), mean1=(5, self.nb), var1=(6, self.nb), rms0=(7, self.nb), rms1=(8, self.nb),
                    proj0=(9, self.nb * self.n), proj1=(10, self.nb * self.n), axis0=(11, self.n), axis1=(12, self.n),
                    geom=(13, 8))
        code, ln = spec[what]
        out = np.zeros(ln, np.float32)
        self._ck(self.lib.iv_ps_get(h, code, out), what)
        if what in ("proj0", "proj1"):
            return out.reshape(self.nb, self.n)
        return out

    def ps_set_projection(self, h, axis, bunch, v):
        self._ck(self.lib.iv_ps_set_projection(h, axis, bunch, np.ascontiguousarray(v, np.float32)), "setproj")

    def ps_xy(self, h, q, p):
        out = np.zeros(2, np.float32)
        self.lib.iv_ps_xy(h, q, p, out)
        return out

    # -- maps
    def map_kick(self, i, o, it, axis, clamp=0):
        return self._reg_in(i, self._ck(self.lib.iv_map_kick(i, o, it, clamp, axis), "kick"))

    def map_set_offset(self, m, off, prelude=True):
        """install a displacement field.  In half of the calls (decided by a hash of the field, so a case stays a pure
        function of its JSON) a HISTORY of one to three other fields is installed first, each of a kind drawn from:
        'near' (the final field perturbed by 1e-5..3e-3 cells), 'far' (unrelated), 'same' (bit-identical to the final
        field), 'outside' (some rows pushed beyond the mesh: +-n, +-inf, NaN; the other rows as in the final field),
        'samehead' (first bunch's block as in the final field, the other blocks unrelated), 'block0' (only the first n
        entries: a one-block field as used for kicks shared by all bunches), 'empty' (the idiom
        'swap the field out, edit it, swap it back').  A map must depend on the current field only; source-map entries
        that are cached, thresholded, only partly rewritten or guarded by sticky state show up this way in every check
        that uses kick maps (seeds C05d, C08d, C15d, C01e, C08e)."""
        off = np.ascontiguousarray(off, np.float32)
        if prelude and len(off) and not os.environ.get("VERIF_NO_OFFSET_PRELUDE"):
            import zlib
            hsh = zlib.crc32(off.tobytes())
            if hsh % 2:
                r = np.random.Generator(np.random.PCG64(hsh))
                fin = off[np.isfinite(off)]
                amp = float(np.abs(fin).max()) if len(fin) else 1.0
                n1 = max(1, len(off) // max(1, int(self.lib.iv_nb())))
                for _ in range(int(r.integers(1, 4))):
                    kind = ("near", "far", "same", "outside", "block0", "empty", "samehead")[int(r.integers(0, 7))]
                    if kind == "near":
                        pre = off + (r.uniform(-1, 1, len(off)) * 10 ** r.uniform(-5, -2.5)).astype(np.float32)
                    elif kind == "far":
                        pre = (r.uniform(-1, 1, len(off)) * (amp + 0.5)).astype(np.float32)
                    elif kind == "same":
                        pre = off.copy()
                    elif kind == "outside":
                        pre = off.copy()
                        rows = r.random(len(off)) < 0.3
                        vals = np.array([2.0 * n1, -2.0 * n1, np.inf, -np.inf, np.nan, 0.75 * n1, -0.75 * n1], np.float32)
                        pre[rows] = vals[r.integers(0, len(vals), int(rows.sum()))]
                    elif kind == "samehead":
                        # first bunch's block bit-identical to the final field, the later blocks different (a change test
                        # that looks at the first block only - round-8 seed C02h - keeps the old table for the others)
                        pre = off.copy()
                        if len(off) > n1:
                            pre[n1:] = (r.uniform(-1, 1, len(off) - n1) * (amp + 0.5)).astype(np.float32)
                    elif kind == "block0":
                        pre = off[:n1].copy()
                    else:
                        pre = np.zeros(0, np.float32)
                    pre = np.ascontiguousarray(pre, np.float32)
                    if len(pre) == 0:
                        pre = np.zeros(1, np.float32)      # ctypes needs a valid pointer; the length passed is 0
                        self._ck(self.lib.iv_map_set_offset(m, pre, 0), "set_offset(prelude)")
                    else:
                        self._ck(self.lib.iv_map_set_offset(m, pre, len(pre)), "set_offset(prelude)")
        self._ck(self.lib.iv_map_set_offset(m, off, len(off)), "set_offset")

    def map_ramp_offset(self, m, start, end, K):
        """K consecutive swapOffset calls on the same map, moving the field in equal small steps from start to end"""
        start = np.ascontiguousarray(start, np.float32)
        end = np.ascontiguousarray(end, np.float32)
        self._ck(self.lib.iv_map_ramp_offset(m, start, end, len(end), int(K)), "ramp_offset")

    def map_force(self, m, ln):
        out = np.zeros(ln, np.float32)
        self._ck(self.lib.iv_map_force(m, out, ln), "force")
        return out

    def map_rf_linear(self, i, o, angle, frf, it, clamp=0):
        return self._reg_in(i, self._ck(self.lib.iv_map_rf_linear(i, o, angle, frf, it, clamp), "rf_linear"))

    def map_rf_sin(self, i, o, revpart, V, frf, V0, it, clamp=0):
        return self._reg_in(i, self._ck(self.lib.iv_map_rf_sin(i, o, revpart, V, frf, V0, it, clamp), "rf_sin"))

    def map_dynrf_linear(self, i, o, angle, revpart, frf, phasespread, amplspread, modampl, modstep, steps, it, clamp=0):
        return self._reg_in(i, self._ck(self.lib.iv_map_dynrf_linear(i, o, self.n, self.n, angle, revpart, frf, phasespread, amplspread,
                                                     modampl, modstep, steps, it, clamp), "dynrf_linear"))

    def map_dynrf_sin(self, i, o, revpart, V, frf, V0, phasespread, amplspread, modampl, modstep, steps, it, clamp=0):
        return self._reg_in(i, self._ck(self.lib.iv_map_dynrf_sin(i, o, self.n, self.n, revpart, V, frf, V0, phasespread, amplspread,
                                                  modampl, modstep, steps, it, clamp), "dynrf_sin"))

    def map_dyn_past(self, m, maxn=400000):
        out = np.zeros(2 * maxn, np.float32)
        k = self._ck(self.lib.iv_map_dyn_past(m, out, maxn), "dyn_past")
        return out[:2 * min(k, maxn)].reshape(-1, 2).copy(), k

    def map_drift(self, i, o, slip, E0, it, clamp=0):
        s = np.ascontiguousarray(slip, np.float32)
        return self._reg_in(i, self._ck(self.lib.iv_map_drift(i, o, s, len(s), E0, it, clamp), "drift"))

    def map_wake(self, i, o, field, it, clamp=0):
        return self._ck(self.lib.iv_map_wake(i, o, field, it, clamp), "wakemap")

    def map_wake_update(self, m):
        self._ck(self.lib.iv_map_wake_update(m), "wake_update")

    def map_fp(self, i, o, fptype, fptrack, e1, dt):
        return self._reg_in(i, self._ck(self.lib.iv_map_fp(i, o, self.n, self.n, fptype, fptrack, e1, dt), "fp"))

    def map_identity(self, i, o):
        return self._reg_in(i, self._ck(self.lib.iv_map_identity(i, o), "identity"))

    def map_rotation(self, i, o, angle, it, clamp, rotmapsize):
        return self._reg_in(i, self._ck(self.lib.iv_map_rotation(i, o, self.n, self.n, angle, it, clamp, rotmapsize), "rotation"))

    def _reg_in(self, i, h):
        if not hasattr(self, "_map_in"):
            self._map_in = {}
        self._map_in[h] = i
        return h

    def map_apply(self, m):
        """apply a map.  For every map except the wake kick (which by design reads the profile), one application in three
        first makes the x/y PROJECTIONS of the input grid stale: all zeros, or unrelated positive values.  The projections
        are caches that main.cpp refreshes only for the first of its three grids; a transport step must depend on the grid
        data alone (round-7 seed C01g and round-5 seed C05e skip 'empty' slices by looking at that cache)."""
        i = getattr(self, "_map_in", {}).get(m)
        self._napply = getattr(self, "_napply", 0) + 1
        if i is not None and not os.environ.get("VERIF_NO_STALE_PROJECTION"):
            import zlib
            hsh = zlib.crc32(("%d/%d/%d" % (self._napply, self.n, self.nb)).encode())      # a pure function of the case
            if hsh % 3 == 0:
                r = np.random.Generator(np.random.PCG64(hsh))
                for b in range(self.nb):
                    for axis in (0, 1):
                        v = np.zeros(self.n, np.float32) if (hsh // 3) % 2 == 0 else r.random(self.n).astype(np.float32)
                        self.lib.iv_ps_set_projection(i, axis, b, v)
        self._ck(self.lib.iv_map_apply(m), "apply")

    def map_apply_to(self, m, xy):
        xy = np.ascontiguousarray(xy, np.float32).reshape(-1, 2).copy()
        self._ck(self.lib.iv_map_apply_to(m, xy.reshape(-1), len(xy)), "apply_to")
        return xy

    # -- impedances
    def imp_array(self, z, fmax=1.0):
        z = np.asarray(z, np.complex64)
        reim = np.empty(2 * len(z), np.float32)
        reim[0::2] = z.real
        reim[1::2] = z.imag
        return self._ck(self.lib.iv_imp_array(reim, len(z), fmax), "imp_array")

    def imp_add(self, h, z, fmax=1.0):
        """Impedance::operator+= on the existing object (every field built on it sees the change)"""
        other = self.imp_array(np.ascontiguousarray(z, np.complex64), fmax)
        self._ck(self.lib.iv_imp_add(h, other), "imp_add")

    def imp_file(self, path, fmax):
        return self._ck(self.lib.iv_imp_file(path.encode(), fmax), "imp_file")

    def imp_model(self, kind, n, fmax, params):
        kinds = dict(const=0, collimator=1, freespace=2, parallelplates=3, resistivewall=4)
        p = np.zeros(8, np.float64)
        p[:len(params)] = params
        return self._ck(self.lib.iv_imp_model(kinds[kind], n, fmax, p), "imp_model " + kind)

    def imp_make(self, n, fmax, R, frev, gap, use_csr=True, s=0.0, xi=0.0, coll=0.0, file=""):
        return self._ck(self.lib.iv_imp_make(n, fmax, R, frev, gap, int(use_csr), s, xi, coll, file.encode()), "imp_make")

    def imp_data(self, h):
        sz = self.lib.iv_imp_size(h)
        out = np.zeros(2 * sz, np.float32)
        if sz:
            self.lib.iv_imp_data(h, out)
        return (out[0::2] + 1j * out[1::2]).astype(np.complex64)

    def imp_nfreqs(self, h):
        return self.lib.iv_imp_nfreqs(h)

    def imp_size(self, h):
        return self.lib.iv_imp_size(h)

    # -- fields
    def ef_csr(self, ps, imp, buckets, spacing, frev, revpart):
        b = np.ascontiguousarray(buckets, np.uint32)
        return self._ck(self.lib.iv_ef_csr(ps, imp, b, len(b), spacing, frev, revpart), "ef_csr")

    def ef_wake(self, ps, imp, buckets, spacing, frev, revpart, Ib, E0, sE, dt):
        b = np.ascontiguousarray(buckets, np.uint32)
        return self._ck(self.lib.iv_ef_wake(ps, imp, b, len(b), spacing, frev, revpart, Ib, E0, sE, dt), "ef_wake")

    def ef_do(self, h, op, arg=0.0):
        ops = dict(wake=0, pad=1, csr=2)
        self._ck(self.lib.iv_ef_do(h, ops[op], arg), "ef_do " + op)

    def ef_info(self, h):
        out = np.zeros(8, np.float64)
        self._ck(self.lib.iv_ef_info(h, out), "ef_info")
        return dict(nmax=int(out[0]), wakescaling=np.float32(out[1]), fdelta=out[2], fscale=out[3], volts=out[4],
                    WattPerHertz=out[5], Watts=out[6])

    def ef_get(self, h, what):
        N = self.ef_info(h)["nmax"]
        spec = dict(wake=(0, self.nb * self.n), padded_wake=(1, N), padded_profile=(2, N),
                    csr_spectrum=(3, self.nb * N), csr_power=(4, self.nb))
        code, ln = spec[what]
        out = np.zeros(ln, np.float32)
        self._ck(self.lib.iv_ef_get(h, code, out), what)
        if what == "wake":
            return out.reshape(self.nb, self.n)
        if what == "csr_spectrum":
            return out.reshape(self.nb, N)
        return out

    # -- options
    def opts_parse(self, args):
        """returns (handle, run) ; raises ShimError with the exception text on a parse exception"""
        argv = [b"inovesa"] + [a.encode() for a in args]
        arr = (C.c_char_p * (len(argv) + 1))()
        arr[:len(argv)] = argv
        arr[len(argv)] = None
        h = self.lib.iv_opts_parse(len(argv), arr)
        if h == 0:
            raise ShimError(self.err())
        return abs(h), h > 0

    def opts_json(self, h):
        buf = C.create_string_buffer(1 << 16)
        self._ck(self.lib.iv_opts_json(h, buf, len(buf)), "opts_json")
        d = json.loads(buf.value.decode(errors="replace"))
        d.pop("_end", None)
        return d

    def opts_save(self, h, path):
        self._ck(self.lib.iv_opts_save(h, path.encode()), "opts_save")

    def opts_free(self, h):
        self.lib.iv_opts_free(h)


_shim = None


def get(path=None):
    """process-wide singleton"""
    global _shim
    if _shim is None:
        if path is None:
            path = os.environ["VERIF_SHIM"]
        _shim = Shim(path)
    return _shim
