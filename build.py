#!/usr/bin/env python3
"""Build Inovesa from /repo's *current working tree* in the flavours the checks need.

Flavours
  rel   g++  -O2 -g, hooks on           -> executable  inovesa
  san   clang++ -O1 -g ASan+UBSan, hooks on, asserts on -> executable inovesa
  shim  g++  -O2 -g -fPIC, hooks on     -> libivshim.so (all sources except main.cpp + /verif/shim/shim.cpp)
  fuzz  clang++ -O1 -g fuzzer-no-link + ASan+UBSan objects, linked with /verif/fuzz/fuzz_inputs.cpp
  h5x   /verif/tools/h5x.cpp            -> h5x   (independent of /repo)

Objects are cached content-addressed: key = sha256(flags, source text, every header under
/repo/inc, CMakeLists version numbers).  So an edited source file is always recompiled and
an unchanged tree costs only the hashing.  Nothing lives under /tmp.
"""
import hashlib, os, re, subprocess, sys, shutil, time, json
from concurrent.futures import ThreadPoolExecutor

REPO = os.environ.get("VERIF_REPO", "/repo")
VERIF = os.path.dirname(os.path.abspath(__file__))
CACHE = os.path.join(VERIF, ".cache")
OBJ = os.path.join(CACHE, "obj")
BIN = os.path.join(CACHE, "bin")
GUARD = "INOVESA_VERIF"

H5INC = "/usr/include/hdf5/serial"
H5LIB = "/usr/lib/x86_64-linux-gnu/hdf5/serial"
LIBS = ["-L" + H5LIB, "-Wl,-rpath," + H5LIB, "-lboost_filesystem", "-lboost_program_options",
        "-lboost_system", "-lfftw3f", "-lfftw3", "-lhdf5_cpp", "-lhdf5", "-lpthread", "-lm"]

COMMON_DEFS = ["-DINOVESA_ENABLE_INTERRUPT=1", "-DINOVESA_USE_HDF5=1", "-DINOVESA_USE_OPENCL=0",
               "-DINOVESA_USE_OPENGL=0", "-DINOVESA_USE_PNG=0",
               '-DGIT_BRANCH="verif"', '-DGIT_COMMIT="worktree"']

FLAVOURS = {
    "rel":  dict(cxx="g++", flags=["-std=c++14", "-fext-numeric-literals", "-O2", "-g", "-w", "-DNDEBUG", "-D%s=1" % GUARD]),
    "relnohook": dict(cxx="g++", flags=["-std=c++14", "-fext-numeric-literals", "-O2", "-g", "-w", "-DNDEBUG"]),
    "san":  dict(cxx="clang++", flags=["-std=c++14", "-O1", "-g", "-w", "-fno-omit-frame-pointer",
                                       "-fsanitize=address,undefined", "-fno-sanitize-recover=undefined",
                                       "-D%s=1" % GUARD],
                 ldflags=["-fsanitize=address,undefined"]),
    "shim": dict(cxx="g++", flags=["-std=c++14", "-fext-numeric-literals", "-O2", "-g", "-w", "-fPIC", "-DNDEBUG",
                                   "-D%s=1" % GUARD, "-DINOVESA_ALLOW_PS_RESET=1"]),
    "shimsan": dict(cxx="g++", flags=["-std=c++14", "-fext-numeric-literals", "-O1", "-g", "-w", "-fPIC",
                                      "-fsanitize=address,undefined,float-cast-overflow", "-fno-sanitize-recover=undefined,float-cast-overflow",
                                      "-fno-omit-frame-pointer", "-D%s=1" % GUARD, "-DINOVESA_ALLOW_PS_RESET=1"],
                    ldflags=["-fsanitize=address,undefined"]),
    "fuzzcfg": dict(cxx="clang++", flags=["-std=c++14", "-O1", "-g", "-w", "-fno-omit-frame-pointer",
                                          "-fsanitize=fuzzer-no-link,address,undefined",
                                          "-fno-sanitize-recover=undefined", "-D%s=1" % GUARD,
                                          "-DINOVESA_ALLOW_PS_RESET=1"],
                    ldflags=["-fsanitize=fuzzer,address,undefined"]),
    "fuzzmaps": dict(cxx="clang++", flags=["-std=c++14", "-O1", "-g", "-w", "-fno-omit-frame-pointer",
                                           "-fsanitize=fuzzer-no-link,address,undefined",
                                           "-fno-sanitize-recover=undefined", "-D%s=1" % GUARD,
                                           "-DINOVESA_ALLOW_PS_RESET=1"],
                     ldflags=["-fsanitize=fuzzer,address,undefined"]),
    "fuzzfield": dict(cxx="clang++", flags=["-std=c++14", "-O1", "-g", "-w", "-fno-omit-frame-pointer",
                                            "-fsanitize=fuzzer-no-link,address,undefined",
                                            "-fno-sanitize-recover=undefined", "-D%s=1" % GUARD,
                                            "-DINOVESA_ALLOW_PS_RESET=1"],
                      ldflags=["-fsanitize=fuzzer,address,undefined"]),
    "fuzz": dict(cxx="clang++", flags=["-std=c++14", "-O1", "-g", "-w", "-fno-omit-frame-pointer",
                                       "-fsanitize=fuzzer-no-link,address,undefined",
                                       "-fno-sanitize-recover=undefined", "-D%s=1" % GUARD,
                                       "-DINOVESA_ALLOW_PS_RESET=1"],
                 ldflags=["-fsanitize=fuzzer,address,undefined"]),
}


def sh(cmd, **kw):
    r = subprocess.run(cmd, stdout=subprocess.PIPE, stderr=subprocess.STDOUT, text=True, **kw)
    return r.returncode, r.stdout


def read(p):
    with open(p, "rb") as f:
        return f.read()


def repo_sources():
    out = []
    for root, _, files in os.walk(os.path.join(REPO, "src")):
        for f in sorted(files):
            if f.endswith(".cpp"):
                out.append(os.path.join(root, f))
    return sorted(out)


def header_hash():
    h = hashlib.sha256()
    for root, _, files in sorted(os.walk(os.path.join(REPO, "inc"))):
        if os.sep + "CL" in root and False:
            continue
        for f in sorted(files):
            p = os.path.join(root, f)
            h.update(p.encode())
            h.update(read(p))
    h.update(read(os.path.join(REPO, "CMakeLists.txt")))
    h.update(read(os.path.join(REPO, "InovesaConfig.hpp.in")))
    return h.hexdigest()


def tree_hash():
    h = hashlib.sha256()
    h.update(header_hash().encode())
    for s in repo_sources():
        h.update(s.encode())
        h.update(read(s))
    return h.hexdigest()[:16]


def config_dir():
    """generate InovesaConfig.hpp from CMakeLists version numbers"""
    txt = read(os.path.join(REPO, "CMakeLists.txt")).decode()
    vals = {}
    for k in ("MAJOR", "MINOR", "FIX"):
        m = re.search(r"set\s*\(\s*INOVESA_VERSION_%s\s+(-?\d+)\s*\)" % k, txt)
        vals[k] = m.group(1) if m else "0"
    tpl = read(os.path.join(REPO, "InovesaConfig.hpp.in")).decode()
    for k, v in vals.items():
        tpl = tpl.replace("@INOVESA_VERSION_%s@" % k, v)
    key = hashlib.sha256(tpl.encode()).hexdigest()[:12]
    d = os.path.join(CACHE, "cfg", key)
    os.makedirs(d, exist_ok=True)
    p = os.path.join(d, "InovesaConfig.hpp")
    if not os.path.exists(p):
        with open(p + ".tmp%d" % os.getpid(), "w") as f:
            f.write(tpl)
        os.replace(p + ".tmp%d" % os.getpid(), p)
    return d


def compile_one(cxx, flags, src, hh, extra_key=b""):
    h = hashlib.sha256()
    h.update(cxx.encode())
    h.update(" ".join(flags).encode())
    h.update(hh.encode())
    h.update(src.encode())
    h.update(read(src))
    h.update(extra_key)
    obj = os.path.join(OBJ, h.hexdigest()[:32] + ".o")
    if os.path.exists(obj):
        os.utime(obj, None)
        return obj, None
    tmp = obj + ".tmp%d" % os.getpid()
    rc, out = sh([cxx] + flags + ["-c", src, "-o", tmp])
    if rc != 0:
        return None, "COMPILE FAILED %s\n%s" % (src, out)
    os.replace(tmp, obj)
    return obj, None


def prune():
    """keep the object cache bounded: drop objects not used for 36 h, and old binaries"""
    now = time.time()
    try:
        for f in os.listdir(OBJ):
            p = os.path.join(OBJ, f)
            if now - os.path.getmtime(p) > 36 * 3600:
                os.remove(p)
        ents = sorted((os.path.getmtime(os.path.join(BIN, d)), d) for d in os.listdir(BIN))
        for _, d in ents[:-12]:
            shutil.rmtree(os.path.join(BIN, d), ignore_errors=True)
    except OSError:
        pass


def build(flavour, quiet=True):
    """returns path to the artefact; raises RuntimeError on compile failure"""
    os.makedirs(OBJ, exist_ok=True)
    os.makedirs(BIN, exist_ok=True)
    if flavour == "h5x":
        return build_h5x()
    fl = FLAVOURS[flavour]
    cfg = config_dir()
    hh = header_hash()
    incs = ["-I" + cfg, "-I" + os.path.join(REPO, "inc"), "-I" + H5INC]
    flags = fl["flags"] + COMMON_DEFS + incs
    srcs = repo_sources()
    extra = []
    if flavour in ("shim", "shimsan"):
        srcs = [s for s in srcs if not s.endswith("/main.cpp")]
        extra = [os.path.join(VERIF, "shim", "shim.cpp")]
    elif flavour == "fuzz":
        srcs = [s for s in srcs if not s.endswith("/main.cpp")]
        extra = [os.path.join(VERIF, "fuzz", "fuzz_inputs.cpp")]
    elif flavour == "fuzzfield":
        srcs = [s for s in srcs if not s.endswith("/main.cpp")]
        extra = [os.path.join(VERIF, "fuzz", "fuzz_field.cpp")]
    elif flavour == "fuzzmaps":
        srcs = [s for s in srcs if not s.endswith("/main.cpp")]
        extra = [os.path.join(VERIF, "fuzz", "fuzz_maps.cpp")]
    elif flavour == "fuzzcfg":
        srcs = [s for s in srcs if not s.endswith("/main.cpp")]
        extra = [os.path.join(VERIF, "fuzz", "fuzz_config.cpp")]
    th = hashlib.sha256((flavour + hh + "".join(s + hashlib.sha256(read(s)).hexdigest() for s in srcs + extra)
                         + " ".join(flags)).encode()).hexdigest()[:16]
    outdir = os.path.join(BIN, flavour + "-" + th)
    name = {"shim": "libivshim.so", "shimsan": "libivshim.so", "fuzz": "fuzz_inputs", "fuzzcfg": "fuzz_config", "fuzzfield": "fuzz_field", "fuzzmaps": "fuzz_maps"}.get(flavour, "inovesa")
    art = os.path.join(outdir, name)
    if os.path.exists(art):
        os.utime(outdir, None)
        return art
    t0 = time.time()
    objs, errs = [], []
    with ThreadPoolExecutor(max_workers=int(os.environ.get("VERIF_JOBS", "16"))) as ex:
        futs = [ex.submit(compile_one, fl["cxx"], flags, s, hh) for s in srcs + extra]
        for f in futs:
            o, e = f.result()
            if e:
                errs.append(e)
            else:
                objs.append(o)
    if errs:
        raise RuntimeError("\n".join(errs))
    os.makedirs(outdir, exist_ok=True)
    tmp = art + ".tmp%d" % os.getpid()
    link = [fl["cxx"]] + (["-shared"] if flavour in ("shim", "shimsan") else []) + fl.get("ldflags", []) \
        + objs + LIBS + ["-o", tmp]
    rc, out = sh(link)
    if rc != 0:
        raise RuntimeError("LINK FAILED\n" + out)
    os.replace(tmp, art)
    prune()
    if not quiet:
        print("built %s in %.1fs -> %s" % (flavour, time.time() - t0, art))
    return art


def build_h5x():
    src = os.path.join(VERIF, "tools", "h5x.cpp")
    key = hashlib.sha256(read(src)).hexdigest()[:16]
    outdir = os.path.join(BIN, "h5x-" + key)
    art = os.path.join(outdir, "h5x")
    if os.path.exists(art):
        os.utime(outdir, None)
        return art
    os.makedirs(outdir, exist_ok=True)
    tmp = art + ".tmp%d" % os.getpid()
    rc, out = sh(["g++", "-std=c++17", "-O2", "-w", "-I" + H5INC, src, "-L" + H5LIB, "-Wl,-rpath," + H5LIB,
                  "-lhdf5_cpp", "-lhdf5", "-o", tmp])
    if rc != 0:
        raise RuntimeError("h5x build failed\n" + out)
    os.replace(tmp, art)
    return art


if __name__ == "__main__":
    fls = sys.argv[1:] or ["h5x", "shim", "rel", "san"]
    for f in fls:
        try:
            p = build(f, quiet=False)
            print(f, p)
        except RuntimeError as e:
            print(str(e)[:4000])
            sys.exit(2)
