// Flat C interface over the real Inovesa classes, driven from Python (ctypes).
// Pure argument marshalling: no arithmetic of its own enters any result.
#define INOVESA_ALLOW_PS_RESET 1
#include "defines.hpp"
#include "IO/Display.hpp"
#include "PS/PhaseSpace.hpp"
#include "PS/ElectricField.hpp"
#include "PS/PhaseSpaceFactory.hpp"
#include "SM/SourceMap.hpp"
#include "SM/KickMap.hpp"
#include "SM/RFKickMap.hpp"
#include "SM/DynamicRFKickMap.hpp"
#include "SM/DriftMap.hpp"
#include "SM/WakePotentialMap.hpp"
#include "SM/FokkerPlanckMap.hpp"
#include "SM/Identity.hpp"
#include "SM/RotationMap.hpp"
#include "Z/Impedance.hpp"
#include "Z/ImpedanceFactory.hpp"
#include "Z/ConstImpedance.hpp"
#include "Z/CollimatorImpedance.hpp"
#include "Z/FreeSpaceCSR.hpp"
#include "Z/ParallelPlatesCSR.hpp"
#include "Z/ResistiveWall.hpp"
#include "IO/ProgramOptions.hpp"
#include "HelperFunctions.hpp"

#include <cstring>
#include <map>
#include <memory>
#include <sstream>
#include <string>
#include <vector>

using namespace vfps;

namespace {
std::string g_err;
int g_next = 1;
std::map<int, std::shared_ptr<PhaseSpace>> g_ps;
std::map<int, std::shared_ptr<SourceMap>> g_map;
std::map<int, std::shared_ptr<Impedance>> g_imp;
std::map<int, std::shared_ptr<ElectricField>> g_ef;
std::map<int, std::shared_ptr<ProgramOptions>> g_opt;

struct CoeffProbe : public SourceMap {
    static void coeff(interpol_t* ic, interpol_t f, uint_fast8_t it) { calcCoefficiants(ic, f, it); }
};

SourceMap::InterpolationType IT(int it) { return static_cast<SourceMap::InterpolationType>(it); }

#define TRY try {
#define CATCH(rv) } catch (const std::exception& e) { g_err = std::string("std::exception: ")+e.what(); return rv; } \
                    catch (const std::string& s) { g_err = "string: "+s; return rv; } \
                    catch (...) { g_err = "unknown exception"; return rv; }
}

extern "C" {

const char* iv_last_error() { return g_err.c_str(); }

void iv_silence(int s) { Display::silent_mode = (s != 0); }

// destroy every object, then set the global grid size
int iv_reset(unsigned n, unsigned nb)
{
    TRY
    g_map.clear(); g_ef.clear(); g_ps.clear(); g_imp.clear(); g_opt.clear();
    PhaseSpace::resetSize(n, nb);
    return 0;
    CATCH(-1)
}
// keep objects, only change the global size (needed to build single-bunch worlds next to multi-bunch results)
int iv_resize_only(unsigned n, unsigned nb)
{
    PhaseSpace::resetSize(n, nb);
    return 0;
}
void iv_free_all() { g_map.clear(); g_ef.clear(); g_ps.clear(); g_imp.clear(); g_opt.clear(); }
void iv_free_map(int h) { g_map.erase(h); }
void iv_free_ef(int h) { g_ef.erase(h); }
void iv_free_ps(int h) { g_ps.erase(h); }

unsigned iv_nx() { return PhaseSpace::nx; }
unsigned iv_nb() { return PhaseSpace::nb; }

// ---------------------------------------------------------------- interpolation weights
void iv_coeff(float f, int it, float* out) { CoeffProbe::coeff(out, f, static_cast<uint_fast8_t>(it)); }

// weights for `count` consecutive float bit patterns starting at startbits
void iv_coeff_block(uint32_t startbits, uint32_t count, int it, float* out)
{
    for (uint32_t i = 0; i < count; i++) {
        uint32_t b = startbits + i;
        float f;
        std::memcpy(&f, &b, 4);
        CoeffProbe::coeff(out + size_t(i) * it, f, static_cast<uint_fast8_t>(it));
    }
}

// ---------------------------------------------------------------- PhaseSpace
int iv_ps_new(float qmin, float qmax, double qscale, float pmin, float pmax, double pscale,
              double charge, double current, const float* filling, int nfill, double zoom,
              const float* data /* may be null */)
{
    TRY
    std::vector<integral_t> fl(filling, filling + nfill);
    auto p = std::make_shared<PhaseSpace>(qmin, qmax, qscale, pmin, pmax, pscale, nullptr,
                                          charge, current, fl, zoom, data);
    int h = g_next++;
    g_ps[h] = p;
    return h;
    CATCH(-1)
}
int iv_ps_copy(int h)
{
    TRY
    auto p = std::make_shared<PhaseSpace>(*g_ps.at(h));
    int n = g_next++;
    g_ps[n] = p;
    return n;
    CATCH(-1)
}
int iv_ps_assign(int dst, int src)
{
    TRY
    *g_ps.at(dst) = *g_ps.at(src);
    return 0;
    CATCH(-1)
}
float* iv_ps_data(int h) { return g_ps.at(h)->getData(); }

// op: 0 updateX 1 updateY 2 integrate 3 normalize 4 integrateAndNormalize 5 variance(0) 6 variance(1) 7 average(0) 8 average(1)
int iv_ps_op(int h, int op)
{
    TRY
    auto& p = *g_ps.at(h);
    switch (op) {
    case 0: p.updateXProjection(); break;
    case 1: p.updateYProjection(); break;
    case 2: p.integrate(); break;
    case 3: p.normalize(); break;
    case 4: p.integrateAndNormalize(); break;
    case 5: p.variance(0); break;
    case 6: p.variance(1); break;
    case 7: p.average(0); break;
    case 8: p.average(1); break;
    default: g_err = "bad op"; return -1;
    }
    return 0;
    CATCH(-1)
}
// what: 0 integral(1) 1 filling(nb) 2 setfilling(nb) 3 mean0(nb) 4 var0(nb) 5 mean1(nb) 6 var1(nb) 7 rms0(nb) 8 rms1(nb)
//       9 proj0(nb*n) 10 proj1(nb*n) 11 axis0(n) 12 axis1(n) 13 {delta0,delta1,zerobin0,zerobin1,min0,max0,min1,max1}
int iv_ps_get(int h, int what, float* out)
{
    TRY
    auto& p = *g_ps.at(h);
    const unsigned nb = PhaseSpace::nb, n = PhaseSpace::nx;
    switch (what) {
    case 0: out[0] = p.getIntegral(); break;
    case 1: { auto v = p.getBunchPopulation(); for (unsigned i = 0; i < nb; i++) out[i] = v[i]; } break;
    case 2: { auto v = p.getSetBunchPopulation(); for (unsigned i = 0; i < nb; i++) out[i] = v[i]; } break;
    case 3: { auto v = p.getMoment(0, 0); for (unsigned i = 0; i < nb; i++) out[i] = v[i]; } break;
    case 4: { auto v = p.getMoment(0, 1); for (unsigned i = 0; i < nb; i++) out[i] = v[i]; } break;
    case 5: { auto v = p.getMoment(1, 0); for (unsigned i = 0; i < nb; i++) out[i] = v[i]; } break;
    case 6: { auto v = p.getMoment(1, 1); for (unsigned i = 0; i < nb; i++) out[i] = v[i]; } break;
    case 7: { auto v = p.getBunchLength(); for (unsigned i = 0; i < nb; i++) out[i] = v[i]; } break;
    case 8: { auto v = p.getEnergySpread(); for (unsigned i = 0; i < nb; i++) out[i] = v[i]; } break;
    case 9: { auto v = p.getProjection(0); std::memcpy(out, v.origin(), sizeof(float) * nb * n); } break;
    case 10: { auto v = p.getProjection(1); std::memcpy(out, v.origin(), sizeof(float) * nb * n); } break;
    case 11: std::memcpy(out, p.getAxis(0)->data(), sizeof(float) * n); break;
    case 12: std::memcpy(out, p.getAxis(1)->data(), sizeof(float) * n); break;
    case 13:
        out[0] = p.getDelta(0); out[1] = p.getDelta(1);
        out[2] = p.getAxis(0)->zerobin(); out[3] = p.getAxis(1)->zerobin();
        out[4] = p.getMin(0); out[5] = p.getMax(0); out[6] = p.getMin(1); out[7] = p.getMax(1);
        break;
    default: g_err = "bad what"; return -1;
    }
    return 0;
    CATCH(-1)
}
int iv_ps_set_projection(int h, int axis, int bunch, const float* v)
{
    TRY
    boost::multi_array<projection_t, 1> pr(boost::extents[PhaseSpace::nx]);
    for (unsigned i = 0; i < PhaseSpace::nx; i++) pr[i] = v[i];
    g_ps.at(h)->setProjection(axis, bunch, pr);
    return 0;
    CATCH(-1)
}
void iv_ps_xy(int h, float q, float p, float* out)
{
    out[0] = g_ps.at(h)->x(q);
    out[1] = g_ps.at(h)->y(p);
}

// ---------------------------------------------------------------- maps
static int reg(std::shared_ptr<SourceMap> m) { int h = g_next++; g_map[h] = m; return h; }

int iv_map_kick(int in, int out, int it, int clamp, int axis)
{
    TRY
    return reg(std::make_shared<KickMap>(g_ps.at(in), g_ps.at(out), IT(it), clamp != 0,
                                         axis == 0 ? KickMap::Axis::x : KickMap::Axis::y, nullptr));
    CATCH(-1)
}
int iv_map_set_offset(int m, const float* off, int len)
{
    TRY
    auto k = std::dynamic_pointer_cast<KickMap>(g_map.at(m));
    if (!k) { g_err = "not a KickMap"; return -1; }
    std::vector<meshaxis_t> v(off, off + len);
    k->swapOffset(v);
    return 0;
    CATCH(-1)
}
// a long history of small updates on ONE map: K calls of swapOffset along the straight line from 'from' to 'to'
// (the last call installs 'to' exactly)
int iv_map_ramp_offset(int m, const float* from, const float* to, int len, int K)
{
    TRY
    auto k = std::dynamic_pointer_cast<KickMap>(g_map.at(m));
    if (!k) { g_err = "not a KickMap"; return -1; }
    std::vector<meshaxis_t> v(len);
    for (int i = 1; i <= K; i++) {
        v.resize(len);
        if (i == K) { for (int j = 0; j < len; j++) v[j] = to[j]; }
        else { for (int j = 0; j < len; j++) v[j] = from[j] + (to[j] - from[j]) * (static_cast<float>(i) / K); }
        k->swapOffset(v);
    }
    return 0;
    CATCH(-1)
}
int iv_map_force(int m, float* out, int len)
{
    TRY
    auto k = std::dynamic_pointer_cast<KickMap>(g_map.at(m));
    if (!k) { g_err = "not a KickMap"; return -1; }
    std::memcpy(out, k->getForce(), sizeof(float) * len);
    return 0;
    CATCH(-1)
}
int iv_map_rf_linear(int in, int out, float angle, float fRF, int it, int clamp)
{
    TRY
    return reg(std::make_shared<RFKickMap>(g_ps.at(in), g_ps.at(out), angle, fRF, IT(it), clamp != 0, nullptr));
    CATCH(-1)
}
int iv_map_rf_sin(int in, int out, float revpart, float V, float fRF, float V0, int it, int clamp)
{
    TRY
    return reg(std::make_shared<RFKickMap>(g_ps.at(in), g_ps.at(out), revpart, V, fRF, V0, IT(it), clamp != 0, nullptr));
    CATCH(-1)
}
int iv_map_dynrf_linear(int in, int out, unsigned xsize, unsigned ysize, float angle, double revpart, double fRF,
                        float phasespread, float amplspread, float modampl, double modstep, unsigned steps,
                        int it, int clamp)
{
    TRY
    return reg(std::make_shared<DynamicRFKickMap>(g_ps.at(in), g_ps.at(out), xsize, ysize, angle, revpart, fRF,
                                                  phasespread, amplspread, modampl, modstep, steps,
                                                  IT(it), clamp != 0, nullptr));
    CATCH(-1)
}
int iv_map_dynrf_sin(int in, int out, unsigned xsize, unsigned ysize, double revpart, double V, double fRF, double V0,
                     float phasespread, float amplspread, float modampl, double modstep, unsigned steps,
                     int it, int clamp)
{
    TRY
    return reg(std::make_shared<DynamicRFKickMap>(g_ps.at(in), g_ps.at(out), xsize, ysize, revpart, V, fRF, V0,
                                                  phasespread, amplspread, modampl, modstep, steps,
                                                  IT(it), clamp != 0, nullptr));
    CATCH(-1)
}
// flush the recorded modulation; returns number of (phase,ampl) pairs written (<= maxn), or -1
int iv_map_dyn_past(int m, float* out, int maxn)
{
    TRY
    auto d = std::dynamic_pointer_cast<DynamicRFKickMap>(g_map.at(m));
    if (!d) { g_err = "not a DynamicRFKickMap"; return -1; }
    auto v = d->getPastModulation();
    int n = static_cast<int>(v.size());
    for (int i = 0; i < n && i < maxn; i++) { out[2 * i] = v[i][0]; out[2 * i + 1] = v[i][1]; }
    return n;
    CATCH(-1)
}
int iv_map_drift(int in, int out, const float* slip, int nslip, float E0, int it, int clamp)
{
    TRY
    std::vector<meshaxis_t> s(slip, slip + nslip);
    return reg(std::make_shared<DriftMap>(g_ps.at(in), g_ps.at(out), s, E0, IT(it), clamp != 0, nullptr));
    CATCH(-1)
}
int iv_map_wake(int in, int out, int field, int it, int clamp)
{
    TRY
    return reg(std::make_shared<WakePotentialMap>(g_ps.at(in), g_ps.at(out), g_ef.at(field).get(), IT(it), clamp != 0, nullptr));
    CATCH(-1)
}
int iv_map_wake_update(int m)
{
    TRY
    auto w = std::dynamic_pointer_cast<WakeKickMap>(g_map.at(m));
    if (!w) { g_err = "not a WakeKickMap"; return -1; }
    w->update();
    return 0;
    CATCH(-1)
}
int iv_map_fp(int in, int out, unsigned xsize, unsigned ysize, int fptype, int fptrack, float e1, int dt)
{
    TRY
    return reg(std::make_shared<FokkerPlanckMap>(g_ps.at(in), g_ps.at(out), xsize, ysize,
                                                 static_cast<FokkerPlanckMap::FPType>(fptype),
                                                 static_cast<FokkerPlanckMap::FPTracking>(fptrack), e1,
                                                 static_cast<FokkerPlanckMap::DerivationType>(dt), nullptr));
    CATCH(-1)
}
int iv_map_identity(int in, int out)
{
    TRY
    return reg(std::make_shared<Identity>(g_ps.at(in), g_ps.at(out), nullptr));
    CATCH(-1)
}
int iv_map_rotation(int in, int out, unsigned xsize, unsigned ysize, float angle, int it, int clamp, unsigned rotmapsize)
{
    TRY
    return reg(std::make_shared<RotationMap>(g_ps.at(in), g_ps.at(out), xsize, ysize, angle, IT(it), clamp != 0, rotmapsize, nullptr));
    CATCH(-1)
}
int iv_map_apply(int m)
{
    TRY
    g_map.at(m)->apply();
    return 0;
    CATCH(-1)
}
int iv_map_apply_to(int m, float* xy, int count)
{
    TRY
    std::vector<PhaseSpace::Position> v(count);
    for (int i = 0; i < count; i++) { v[i].x = xy[2 * i]; v[i].y = xy[2 * i + 1]; }
    g_map.at(m)->applyToAll(v);
    for (int i = 0; i < count; i++) { xy[2 * i] = v[i].x; xy[2 * i + 1] = v[i].y; }
    return 0;
    CATCH(-1)
}

// ---------------------------------------------------------------- impedances
static int regi(std::shared_ptr<Impedance> m) { int h = g_next++; g_imp[h] = m; return h; }

int iv_imp_array(const float* reim, unsigned n, float fmax)
{
    TRY
    std::vector<impedance_t> z(n);
    for (unsigned i = 0; i < n; i++) z[i] = impedance_t(reim[2 * i], reim[2 * i + 1]);
    return regi(std::make_shared<Impedance>(z, fmax));
    CATCH(-1)
}
int iv_imp_file(const char* path, double fmax)
{
    TRY
    return regi(std::make_shared<Impedance>(std::string(path), fmax));
    CATCH(-1)
}
// kind: 0 const(p0=re,p1=im) 1 collimator(p0=outer,p1=inner) 2 freespace(p0=f_rev) 3 parallelplates(p0=f0,p1=gap)
//       4 resistive wall(p0=f0,p1=L,p2=s,p3=xi,p4=b)
int iv_imp_model(int kind, unsigned n, float fmax, const double* p)
{
    TRY
    switch (kind) {
    case 0: return regi(std::make_shared<ConstImpedance>(n, fmax, impedance_t(p[0], p[1])));
    case 1: return regi(std::make_shared<CollimatorImpedance>(n, fmax, p[0], p[1]));
    case 2: return regi(std::make_shared<FreeSpaceCSR>(n, p[0], fmax));
    case 3: return regi(std::make_shared<ParallelPlatesCSR>(n, p[0], fmax, p[1]));
    case 4: return regi(std::make_shared<ResistiveWall>(n, p[0], fmax, p[1], p[2], p[3], p[4]));
    }
    g_err = "bad kind";
    return -1;
    CATCH(-1)
}
// returns 0 when the factory returned nullptr
int iv_imp_make(unsigned n, float fmax, double R, double frev, double gap, int use_csr, double s, double xi,
                double coll, const char* file)
{
    TRY
    std::shared_ptr<Impedance> z = makeImpedance(n, nullptr, fmax, R, frev, gap, use_csr != 0, s, xi, coll, std::string(file));
    if (!z) return 0;
    return regi(z);
    CATCH(-1)
}
int iv_imp_add(int a, int b)
{
    TRY
    *g_imp.at(a) += *g_imp.at(b);
    return 0;
    CATCH(-1)
}
unsigned iv_imp_size(int h) { return g_imp.at(h)->size(); }
unsigned iv_imp_nfreqs(int h) { return g_imp.at(h)->nFreqs(); }
void iv_imp_data(int h, float* out) { std::memcpy(out, g_imp.at(h)->data(), sizeof(float) * 2 * g_imp.at(h)->size()); }
double iv_imp_ruler_delta(int h) { return g_imp.at(h)->getRuler()->delta(); }

// ---------------------------------------------------------------- electric field
static int rege(std::shared_ptr<ElectricField> m) { int h = g_next++; g_ef[h] = m; return h; }

int iv_ef_csr(int ps, int imp, const uint32_t* buckets, int nbk, unsigned spacing, double frev, float revpart)
{
    TRY
    std::vector<uint32_t> b(buckets, buckets + nbk);
    return rege(std::make_shared<ElectricField>(g_ps.at(ps), g_imp.at(imp), b, spacing, nullptr, frev, revpart));
    CATCH(-1)
}
int iv_ef_wake(int ps, int imp, const uint32_t* buckets, int nbk, unsigned spacing, double frev, float revpart,
               double Ib, double E0, double sE, double dt)
{
    TRY
    std::vector<uint32_t> b(buckets, buckets + nbk);
    return rege(std::make_shared<ElectricField>(g_ps.at(ps), g_imp.at(imp), b, spacing, nullptr, frev, revpart,
                                                Ib, E0, sE, dt));
    CATCH(-1)
}
int iv_ef_do(int h, int op, float arg)
{
    TRY
    auto& e = *g_ef.at(h);
    switch (op) {
    case 0: e.wakePotential(); break;
    case 1: e.padBunchProfiles(); break;
    case 2: e.updateCSR(arg); break;
    default: g_err = "bad op"; return -1;
    }
    return 0;
    CATCH(-1)
}
// what: 0 wakepotentials(nb*n) 1 padded wake(nmax) 2 padded profile(nmax) 3 csr spectrum(nb*nmax) 4 csr power(nb)
int iv_ef_get(int h, int what, float* out)
{
    TRY
    auto& e = *g_ef.at(h);
    const size_t nb = PhaseSpace::nb, n = PhaseSpace::nx, N = e.getNMax();
    switch (what) {
    case 0: std::memcpy(out, e.getWakePotentials().data(), sizeof(float) * nb * n); break;
    case 1: if (!e.getPaddedWakePotential()) { g_err = "no wake buffers"; return -1; }
            std::memcpy(out, e.getPaddedWakePotential(), sizeof(float) * N); break;
    case 2: std::memcpy(out, e.getPaddedBunchProfiles(), sizeof(float) * N); break;
    case 3: std::memcpy(out, e.getCSRSpectrum(), sizeof(float) * nb * N); break;
    case 4: std::memcpy(out, e.getCSRPower(), sizeof(float) * nb); break;
    default: g_err = "bad what"; return -1;
    }
    return 0;
    CATCH(-1)
}
// {nmax, wakescaling, freq delta, freq scale Hertz, volts, factor4WattPerHertz, factor4Watts}
int iv_ef_info(int h, double* out)
{
    TRY
    auto& e = *g_ef.at(h);
    out[0] = e.getNMax();
    out[1] = e.getWakeScaling();
    out[2] = e.getFreqRuler()->delta();
    out[3] = e.getFreqRuler()->scale("Hertz");
    out[4] = e.volts;
    out[5] = e.factor4WattPerHertz;
    out[6] = e.factor4Watts;
    return 0;
    CATCH(-1)
}

// ---------------------------------------------------------------- program options
static void jnum(std::ostringstream& o, const char* k, double v)
{
    char buf[64];
    std::snprintf(buf, sizeof buf, "%a", v);
    o << '"' << k << "\":\"" << buf << "\",";
}
static void jstr(std::ostringstream& o, const char* k, const std::string& v)
{
    o << '"' << k << "\":\"";
    for (char c : v) {
        if (c == '"' || c == '\\') o << '\\' << c;
        else if (static_cast<unsigned char>(c) < 0x20) { char b[8]; std::snprintf(b, 8, "\\u%04x", c); o << b; }
        else o << c;
    }
    o << "\",";
}

// parse argv; returns handle, 0 if parse() returned false (nothing to run), -1 on exception
int iv_opts_parse(int argc, char** argv)
{
    TRY
    auto o = std::make_shared<ProgramOptions>();
    bool run = o->parse(argc, argv);
    int h = g_next++;
    g_opt[h] = o;
    return run ? h : -h;  // negative handle: parse said "do not run" but object is kept
    CATCH(0)
}
int iv_opts_save(int h, const char* path)
{
    TRY
    g_opt.at(h)->save(std::string(path));
    return 0;
    CATCH(-1)
}
// all getters as JSON; numbers as C99 hex floats (exact), strings escaped
int iv_opts_json(int h, char* buf, int len)
{
    TRY
    auto& o = *g_opt.at(h);
    std::ostringstream s;
    s << '{';
    jnum(s, "CLDevice", o.getCLDevice());
    jstr(s, "ImpedanceFile", o.getImpedanceFile());
    jstr(s, "OutFile", o.getOutFile());
    jnum(s, "SavePhaseSpace", o.getSavePhaseSpace());
    jstr(s, "StartDistFile", o.getStartDistFile());
    jnum(s, "StartDistStep", static_cast<double>(o.getStartDistStep()));
    jstr(s, "ParticleTracking", o.getParticleTracking());
    jnum(s, "Verbosity", o.getVerbosity());
    jnum(s, "ForceRun", o.getForceRun());
    jnum(s, "GridSize", o.getGridSize());
    jnum(s, "OutSteps", o.getOutSteps());
    jnum(s, "Padding", o.getPadding());
    jnum(s, "RoundPadding", o.getRoundPadding());
    jnum(s, "StepsPerTsync", o.getStepsPerTsync());
    jnum(s, "StepsPerTrev", o.getStepsPerTrev());
    jnum(s, "NRotations", o.getNRotations());
    jnum(s, "PhaseSpaceSize", o.getPhaseSpaceSize());
    jnum(s, "PSShiftX", o.getPSShiftX());
    jnum(s, "PSShiftY", o.getPSShiftY());
    jnum(s, "RenormalizeCharge", o.getRenormalizeCharge());
    jnum(s, "FPTrack", o.getFPTrack());
    jnum(s, "FPType", o.getFPType());
    jnum(s, "DerivationType", o.getDerivationType());
    jnum(s, "InterpolationPoints", o.getInterpolationPoints());
    jnum(s, "InterpolationClamped", o.getInterpolationClamped());
    jnum(s, "Alpha0", o.getAlpha0());
    jnum(s, "Alpha1", o.getAlpha1());
    jnum(s, "Alpha2", o.getAlpha2());
    jnum(s, "RFAmplitudeSpread", o.getRFAmplitudeSpread());
    jnum(s, "RFPhaseSpread", o.getRFPhaseSpread());
    jnum(s, "RFPhaseModAmplitude", o.getRFPhaseModAmplitude());
    jnum(s, "RFPhaseModFrequency", o.getRFPhaseModFrequency());
    jnum(s, "BeamEnergy", o.getBeamEnergy());
    jnum(s, "BendingRadius", o.getBendingRadius());
    {
        auto v = o.getBunchCurrents();
        s << "\"BunchCurrents\":[";
        for (size_t i = 0; i < v.size(); i++) {
            char b[64];
            std::snprintf(b, sizeof b, "%a", static_cast<double>(v[i]));
            s << (i ? "," : "") << '"' << b << '"';
        }
        s << "],";
    }
    jnum(s, "CutoffFrequency", o.getCutoffFrequency());
    jnum(s, "EnergySpread", o.getEnergySpread());
    jnum(s, "HaissinskiIterations", o.getHaissinskiIterations());
    jnum(s, "HarmonicNumber", o.getHarmonicNumber());
    jnum(s, "RevolutionFrequency", o.getRevolutionFrequency());
    jnum(s, "RFVoltage", o.getRFVoltage());
    jnum(s, "StartDistZoom", o.getStartDistZoom());
    jnum(s, "SyncFreq", o.getSyncFreq());
    jnum(s, "DampingTime", o.getDampingTime());
    jnum(s, "VacuumChamberGap", o.getVacuumChamberGap());
    jnum(s, "UseCSR", o.getUseCSR());
    jnum(s, "LinearRF", o.getLinearRF());
    jnum(s, "CollimatorRadius", o.getCollimatorRadius());
    jnum(s, "WallConductivity", o.getWallConductivity());
    jnum(s, "WallSusceptibility", o.getWallSusceptibility());
    s << "\"_end\":0}";
    std::string t = s.str();
    if (static_cast<int>(t.size()) + 1 > len) { g_err = "buffer too small"; return -1; }
    std::memcpy(buf, t.c_str(), t.size() + 1);
    return static_cast<int>(t.size());
    CATCH(-1)
}
void iv_opts_free(int h) { g_opt.erase(h); }

// text readers (C17 API level)
int iv_ps_from_txt(const char* path, int64_t ps_size, float qmin, float qmax, float pmin, float pmax,
                   double charge, double current, double qscale, double pscale)
{
    TRY
    PhaseSpace::resetSize();
    std::shared_ptr<PhaseSpace> p = makePSFromTXT(std::string(path), ps_size, qmin, qmax, pmin, pmax, nullptr,
                                                  charge, current, qscale, pscale);
    if (!p) return 0;
    int h = g_next++;
    g_ps[h] = p;
    return h;
    CATCH(-1)
}

uint64_t iv_upper_power_of_two(uint64_t v) { return upper_power_of_two(v); }

} // extern "C"
