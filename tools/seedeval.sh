#!/bin/bash
# tools/seedeval.sh <Cxx> [checks...]  — confirm a sub-agent's seeded change myself in a scratch worktree, then run checks against it
id=$1; shift
checks=${@:-$id}
# SEED_SRC: directory with the sub-agent's deliverables (default /tmp/seed_<id>_out); SEED_NAME: directory name under seeded/
out=${SEED_SRC:-/tmp/seed_${id}_out}
name=${SEED_NAME:-$id}
dst=/verif/seeded/$name
wt=/tmp/ev_${SEED_NAME:-$id}
mkdir -p $dst
cp $out/patch.diff $dst/patch.diff
for f in $(find $out -maxdepth 1 -type f -size -300k ! -name "*.log" ! -name "*.h5" ! -name "*.so" ! -name "*.o"); do cp $f $dst/; done
git -C /repo worktree remove --force $wt >/dev/null 2>&1
git -C /repo worktree add --detach $wt HEAD -q || exit 3
export XDG_DATA_HOME=/tmp/ev_${id}_xdg
# demos build into their own directory: run them from a scratch copy, never inside /verif
run=/tmp/ev_${id}_run; rm -rf $run; cp -r $dst $run; cd $run
t0=$(date +%s)
bash ./demo.sh $wt > /tmp/ev_${id}_demo_clean.log 2>&1; rc_clean=$?
git -C $wt apply $dst/patch.diff; rc_apply=$?
(cd $wt && cmake -G Ninja -B _build -DCMAKE_BUILD_TYPE=RelWithDebInfo . >/dev/null 2>&1 && cmake --build _build > /tmp/ev_${id}_build.log 2>&1); rc_build=$?
(cd $wt/_build && ./inovesa-test > /tmp/ev_${id}_unit.log 2>&1); rc_unit=$?
bash ./demo.sh $wt > /tmp/ev_${id}_demo_changed.log 2>&1; rc_changed=$?
t1=$(date +%s)
git -C /repo worktree remove --force $wt >/dev/null 2>&1
rm -rf /tmp/ev_${id}_xdg $run
echo "SEED $id apply=$rc_apply build=$rc_build unit=$rc_unit demo_clean=$rc_clean demo_changed=$rc_changed ($((t1-t0))s)"
caught=$(cd /verif && python3 tools/mutant.py --patch $dst/patch.diff $checks 2>&1 | tee /tmp/ev_${id}_checks.log | grep "CAUGHT-BY")
echo "SEED $id $caught"
cd /verif; python3 - <<PY
import json
json.dump(dict(property="$id", apply_rc=$rc_apply, build_rc=$rc_build, unit_tests_rc=$rc_unit, demo_on_unchanged_rc=$rc_clean, demo_on_changed_rc=$rc_changed,
  confirmed=bool($rc_apply==0 and $rc_build==0 and $rc_unit==0 and $rc_clean==0 and $rc_changed!=0),
  checks_run="$checks".split(), result="$caught"), open("$dst/eval.json","w"), indent=1)
PY
