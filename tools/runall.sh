#!/bin/bash
# run every check's quick (or given) tier sequentially; print one line per check
cd "$(dirname "$0")/.."
tier=${1:-quick}
for i in $(seq -w 1 20); do
  id=C$i
  s=$(date +%s)
  out=$(./check $id --tier $tier 2>&1)
  rc=$?
  e=$(date +%s)
  echo "$id rc=$rc $((e-s))s $(echo "$out" | grep -c '^VIOLATION') violations; $(echo "$out" | grep '^HEALTH' | head -2 | tr '\n' ' ' | cut -c1-200)"
  echo "$out" | grep "^VIOLATION\|^  failing\|KNOWN-FINDING" | cut -c1-300
done
