#!/usr/bin/env python3
"""Regenerate /verif/MANIFEST.json from the table below (kept next to the checks so that it stays current)."""
import json, os, subprocess
VERIF = os.path.dirname(os.path.dirname(os.path.abspath(__file__)))

TRUSTED = ("Trusted: numpy float64 oracles, Hypothesis generation/shrinking, the ctypes shim (argument marshalling only), "
           "h5x/libhdf5 for reading result files; bounds (grid sizes, case counts) as stated in DESIGN.md.")

CHECKS = {
    "C02": dict(text="Generated-input search: every weight set against the float64 Lagrange basis (quick: 2^22 sampled bit patterns "
                     "incl. denormals and boundaries; thorough: all 2^30 patterns x orders 2,3,4 enumerated), bitwise whole-cell-shift "
                     "oracle on arbitrary finite binary32 data, polynomial-reproduction oracle with a negative control.",
                technique="property-based testing (Hypothesis + ctypes shim), exhaustive enumeration of the weight domain in the thorough tier",
                ref="DESIGN.md §3 C02"),
    "C08": dict(text="Differential testing of the multi-bunch code path against the single-bunch code path, bit for bit, for every map "
                     "kind and for chains of full steps with a real multi-bunch wake field.",
                technique="property-based differential testing (multi-bunch vs single-bunch), bitwise oracle",
                ref="DESIGN.md §3 C08"),
    "C01": dict(text="Generated-input search over every map kind, interpolation order, bunch count and displacement field with data constructed "
                     "inside each row's admissible interval; two oracles: total-sum conservation and operator column sums from unit impulses; the "
                     "Fokker-Planck zero-bin defect is bounded by a factor times the damping decrement and confined to 3 rows.",
                technique="property-based testing (Hypothesis + ctypes shim), conservation and column-sum oracles", ref="DESIGN.md §3 C01"),
    "C06": dict(text="Reference-model testing: wakePotential() against a direct O(N^2) float64 DFT convolution recomputed from the generated inputs, "
                     "plus metamorphic relations (linearity, shift, independence of the negative-frequency half, exact padding).",
                technique="property-based testing against an independent float64 reference model; metamorphic relations", ref="DESIGN.md §3 C06"),
    "C07": dict(text="Generated passive impedances (models and random) and profiles; Parseval relation between CSR power and profile x wake with the DC and "
                     "top-bin terms computed independently; exact non-negativity; cutoff monotonicity.",
                technique="property-based testing, algebraic (Parseval) relation oracle", ref="DESIGN.md §3 C07"),
    "C09": dict(text="Generated filling patterns (incl. empty buckets), extents and data; oracles: shares after normalisation, Simpson projections and moments "
                     "recomputed in float64, analytic moments of Gaussian mixtures, bitwise isolation between bunches, bitwise copy construction.",
                technique="property-based testing, float64 reference + metamorphic isolation/copy relations", ref="DESIGN.md §3 C09"),
}

NOT_YET = "check not built yet (in progress; see DESIGN.md §7 order of work)"


def main():
    props = [json.loads(l)["id"] for l in open(os.path.join(VERIF, "properties.jsonl"))]
    try:
        commits = subprocess.run(["git", "-C", "/repo", "log", "--format=%H %s"], capture_output=True, text=True).stdout.splitlines()
    except Exception:
        commits = []
    hook_commits = [c.split()[0] for c in commits if "INOVESA_VERIF" in c or c.split(" ", 1)[1].startswith("verif-hook")]
    m = dict(
        version=1,
        setup_cmd="python3 build.py h5x shim rel san",
        hooks=dict(guard="INOVESA_VERIF",
                   enable="build.py compiles every source of /repo's working tree with -DINOVESA_VERIF=1 (flavours rel, san, shim, fuzz)",
                   baseline_off_cmd="cmake --build /repo/_build && ctest --test-dir /repo/_build -j8 --timeout 900",
                   source_commits=hook_commits, add_only=True),
        engines=[dict(name="hypothesis-shim", path="vlib/driver.py", serves_properties=sorted(CHECKS),
                      kind_free_text="Hypothesis 6.168 strategies -> JSON cases -> real Inovesa classes through a ctypes shim "
                                     "(libivshim.so, rebuilt from /repo's working tree) or the rebuilt inovesa executable; numpy float64 oracles; "
                                     "sharded over 16 processes; shrunk failing case re-executed 3x and saved as replay file")],
        checks=[], not_applicable=[],
        notes="All checks: ./check <ID> --tier quick|thorough; evidence in evidence/<ID>.json; known findings in known_findings.json.")
    for p in props:
        if p in CHECKS:
            c = CHECKS[p]
            m["checks"].append(dict(
                property_id=p, quick_cmd="./check %s --tier quick" % p, thorough_cmd="./check %s --tier thorough" % p,
                evidence_file="evidence/%s.json" % p, replay_cmd_template="./check %s --replay {path}" % p,
                engine="hypothesis-shim",
                level_claimed=dict(category=c.get("category", "exploration"), text=c["text"], design_ref=c["ref"]),
                level_note=c.get("note", TRUSTED), technique=c["technique"]))
        else:
            m["not_applicable"].append(dict(property_id=p, reason=NOT_YET))
    with open(os.path.join(VERIF, "MANIFEST.json"), "w") as f:
        json.dump(m, f, indent=1)
    print("checks:", [c["property_id"] for c in m["checks"]])


if __name__ == "__main__":
    main()
