#!/usr/bin/env python3
"""Regenerate /verif/MANIFEST.json from the table below (kept next to the checks so that it stays current)."""
import json, os, subprocess
VERIF = os.path.dirname(os.path.dirname(os.path.abspath(__file__)))

TRUSTED = ("Trusted: numpy float64 oracles, Hypothesis generation/shrinking, the ctypes shim (argument marshalling only), "
           "h5x/libhdf5 for reading result files; bounds (grid sizes, case counts) as stated in DESIGN.md.")

CHECKS = {
    "C01": dict(text="Generated-input search over every map kind, interpolation order, bunch count and displacement field with data constructed "
                     "inside each row's admissible interval; two oracles: total-sum conservation and operator column sums from unit impulses; the "
                     "Fokker-Planck zero-bin defect is bounded by a factor times the damping decrement and confined to 3 rows; displacement fields are installed after a "
                     "generated history of other fields; coverage-guided libFuzzer target (fuzz_maps, oracle 'sum') on the kick map with the conservation oracle inside.",
                technique="property-based testing (Hypothesis + ctypes shim), conservation and column-sum oracles; coverage-guided fuzzing (libFuzzer) with the conservation oracle in the target", ref="DESIGN.md §3 C01"),
    "C02": dict(text="Generated-input search: every weight set against the float64 Lagrange basis (quick: 2^22 sampled bit patterns "
                     "incl. denormals and boundaries; thorough: all 2^30 patterns x orders 2,3,4 enumerated), bitwise whole-cell-shift "
                     "oracle on arbitrary finite binary32 data, polynomial-reproduction oracle with a negative control, RotationMap polynomial reproduction; coverage-guided libFuzzer target (fuzz_maps, "
                     "oracle 'shift') with the bitwise whole-cell-shift oracle inside.",
                technique="property-based testing (Hypothesis + ctypes shim), exhaustive enumeration of the weight domain in the thorough tier, coverage-guided fuzzing (libFuzzer) of whole-cell shifts",
                ref="DESIGN.md §3 C02"),
    "C03": dict(text="Generated grids/shifts/steps/start distributions; centroid after every step of a full period against the exact rotation "
                     "(fixed sense, first-order splitting bound), against the float64 kick-drift matrix model, and between differently centred grids; "
                     "the real program started from generated off-centre distributions for both RF models and small alpha1/alpha2.",
                technique="property-based testing with a float64 reference model (API) and whole-program runs (CLI)", ref="DESIGN.md §3 C03"),
    "C04": dict(text="Whole-program runs without impedance over generated grids, steps, damping decrements, stencils, zooms and Fokker-Planck variants; "
                     "oracles on the recorded bunch length / energy spread: equilibrium within a calibrated discretisation bound, relaxation rate at two "
                     "damping times, stationarity, independence of the start, monotonicity for damping-only / diffusion-only, constancy for neither.",
                technique="property-based testing of whole executions, invariants over recorded time series (bounded run length)", ref="DESIGN.md §3 C04"),
    "C05": dict(text="Whole-program runs with five impedance families and the current constructed (pilot run) to hit a drawn potential-well distortion; "
                     "Haissinski residual over the core with the stored wake and with the wake recomputed from the stored profile, stored impedance and "
                     "machine parameters (ties sign and absolute strength of the collective force to the impedance).",
                technique="property-based testing of whole executions, physical fixed-point (Haissinski) oracle", ref="DESIGN.md §3 C05"),
    "C06": dict(text="Reference-model testing: wakePotential() against a direct O(N^2) float64 DFT convolution recomputed from the generated inputs, "
                     "plus metamorphic relations (linearity, shift, independence of the negative-frequency half, exact padding).",
                technique="property-based testing against an independent float64 reference model; metamorphic relations", ref="DESIGN.md §3 C06"),
    "C07": dict(text="Generated passive impedances (models and random) and profiles; Parseval relation between CSR power and profile x wake with the DC and "
                     "top-bin terms computed independently; exact non-negativity; cutoff monotonicity.",
                technique="property-based testing, algebraic (Parseval) relation oracle", ref="DESIGN.md §3 C07"),
    "C08": dict(text="Differential testing of the multi-bunch code path against the single-bunch code path, bit for bit, for every map "
                     "kind and for chains of full steps with a real multi-bunch wake field.",
                technique="property-based differential testing (multi-bunch vs single-bunch), bitwise oracle", ref="DESIGN.md §3 C08"),
    "C09": dict(text="Generated filling patterns (incl. empty buckets), extents and data; oracles: shares after normalisation, Simpson projections and moments "
                     "recomputed in float64, analytic moments of Gaussian mixtures, bitwise isolation between bunches, bitwise copy construction.",
                technique="property-based testing, float64 reference + metamorphic isolation/copy relations", ref="DESIGN.md §3 C09"),
    "C10": dict(text="Generated configurations of the real program; every record of the HDF5 file is checked against invariants recomputed from the file and the "
                     "machine parameters: record counts, time axes, axes, projections (with the documented renormalisation ordering), moments, wake convolution "
                     "with absolute scale, CSR spectrum/intensity per bunch against the radiation impedance model, unit factors.",
                technique="property-based testing of whole executions, invariants over the result file", ref="DESIGN.md §3 C10"),
    "C11": dict(text="Three real runs per case (uninterrupted, first leg, continued from the results file, optionally from a chosen record): bitwise load and bitwise "
                     "equivalence without renormalisation, bounded otherwise; unusable start files (7 kinds) must be refused with a message.",
                technique="property-based differential testing of whole executions (split run vs single run), fault injection on the start file", ref="DESIGN.md §3 C11"),
    "C12": dict(text="Families of real runs differing only in observation (cadence, phase-space saving, tracking, verbosity, file name, exact repetition) "
                     "compared bit for bit at every common record and at the end.",
                technique="property-based metamorphic testing of whole executions, bitwise oracle", ref="DESIGN.md §3 C12"),
    "C13": dict(text="Round trip parse -> save -> parse over generated assignments of all registered options from command line and/or parent config file "
                     "(arbitrary representable floats, vectors, aliases, alpha0 vs synchrotron frequency): every getter compared bitwise, first and second "
                     "generation; coverage-guided libFuzzer target on configuration text (bytes + command-line arguments) with the same round-trip oracle "
                     "inside the target; end-to-end rerun of the real program from its saved .cfg (bit-identical results).",
                technique="property-based round-trip testing (Hypothesis, in-process through the shim) and coverage-guided fuzzing (libFuzzer) of configuration text with a round-trip oracle", ref="DESIGN.md §3 C13"),
    "C14": dict(category="fault_enumeration",
                text="SIGINT raised by a guarded hook at generated interrupt points (statement boundaries of set-up, loop, output block, HDF5 appends, final block), "
                     "1-3 signals; oracles against an uninterrupted run with the same cadence and an every-step reference run, all bitwise; thorough tier "
                     "enumerates EVERY interrupt point of six fixed runs; truly asynchronous kill -INT deliveries are sampled.",
                technique="fault injection at enumerated interrupt points (property-based schedule generation; exhaustive per run in the thorough tier), differential bitwise oracle",
                ref="DESIGN.md §3 C14"),
    "C15": dict(text="Blob oracle (particle vs centroid of a constructed two-row blob) for all kick maps and positions incl. edges; in-grid invariant over generated "
                     "step sequences and all four Fokker-Planck tracking models; 5-sigma ensemble statistics of the stochastic model with a hook-seeded PRNG; long histories of tiny field updates on one map; coverage-guided "
                     "libFuzzer target (fuzz_maps, oracle 'ingrid') for the in-grid invariant under finite, huge, infinite and NaN displacements.",
                technique="property-based testing: exact first-moment oracle, invariant over generated operation sequences, seeded statistical test; coverage-guided fuzzing (libFuzzer) of the in-grid invariant", ref="DESIGN.md §3 C15"),
    "C16": dict(text="Shape/passivity/zero-upper-half for every model and sample count, scaling-law ratios and phases, parameter metamorphics, parallel-plates limits, "
                     "causality through the real wake code, factory result bitwise equal to the sum of separately built contributions.",
                technique="property-based testing, ratio/metamorphic oracles and an impulse-response causality test", ref="DESIGN.md §3 C16"),
    "C17": dict(text="Structured generator of configurations and input files run on the ASan+UBSan build of the real program; valgrind memcheck on a generated "
                     "subset for uninitialised reads; libFuzzer (coverage-guided) on the three text readers and the impedance factory with shape oracles; the generated "
                     "cases of every API-level sub-check (26 generators borrowed from C01-C20) executed against the real classes in an ASan+UBSan build of the shim.",
                technique="structured fuzzing of the whole program and of the API harness under ASan/UBSan, valgrind subset, libFuzzer target", ref="DESIGN.md §3 C17"),
    "C18": dict(text="Generated histories of set-profile / wake / pad / csr requests on one long-lived field, each answer compared bit for bit with a freshly "
                     "constructed field given the current profiles; the same oracle inside a coverage-guided libFuzzer target (fuzz_field) that decodes bytes into a "
                     "configuration and a history of up to 32 operations.",
                technique="stateful (model-based) property testing and coverage-guided stateful fuzzing (libFuzzer): history vs fresh object, bitwise oracle", ref="DESIGN.md §3 C18"),
    "C19": dict(text="Dynamic RF map with zero amplitudes vs static map (bitwise, both models); recorded (phase, amplitude) pairs vs the kick actually in force and "
                     "the configured modulation across generated flush positions, noise seeded through the hook.",
                technique="property-based differential testing (dynamic vs static map) and record/replay consistency", ref="DESIGN.md §3 C19"),
    "C20": dict(text="Reference model of three-level precedence over generated presence patterns of all options, alias substitution and ignored-option metamorphics, "
                     "documented defaults parsed from --help, fault injection (unknown/malformed/missing config) against the real binary.",
                technique="property-based testing against a precedence reference model; fault injection on the command line", ref="DESIGN.md §3 C20"),
}

NOT_YET = "check not built yet (in progress; see DESIGN.md §7 order of work)"


def main():
    props = [json.loads(l)["id"] for l in open(os.path.join(VERIF, "properties.jsonl"))]
    try:
        commits = subprocess.run(["git", "-C", "/repo", "log", "--format=%H %s"], capture_output=True, text=True).stdout.splitlines()
    except Exception:
        commits = []
    hook_commits = [c.split()[0] for c in commits if "INOVESA_VERIF" in c or c.split(" ", 1)[1].startswith("verif-hook")]
    m = dict(
        version=1,
        setup_cmd="python3 build.py h5x shim rel san fuzz shimsan fuzzcfg fuzzfield fuzzmaps",
        hooks=dict(guard="INOVESA_VERIF",
                   enable="build.py compiles every source of /repo's working tree with -DINOVESA_VERIF=1 (flavours rel, san, shim, fuzz)",
                   baseline_off_cmd="cmake --build /repo/_build && ctest --test-dir /repo/_build -j8 --timeout 900",
                   source_commits=hook_commits, add_only=True),
        engines=[dict(name="hypothesis-shim", path="vlib/driver.py", serves_properties=sorted(CHECKS),
                      kind_free_text="Hypothesis 6.168 strategies -> JSON cases -> real Inovesa classes through a ctypes shim "
                                     "(libivshim.so, rebuilt from /repo's working tree) or the rebuilt inovesa executable; numpy float64 oracles; "
                                     "sharded over 16 processes; shrunk failing case re-executed 3x and saved as replay file"),
                 dict(name="libfuzzer-targets", path="vlib/fuzzrun.py", serves_properties=["C01", "C02", "C13", "C15", "C17", "C18"],
                      kind_free_text="libFuzzer (clang 14, -fsanitize=fuzzer,address,undefined) targets under fuzz/ with the semantic oracle inside the "
                                     "target: fuzz_maps.cpp (C01 sum / C02 whole-cell shift / C15 in-grid / C17 memory), fuzz_config.cpp (C13 round trip of "
                                     "configuration text), fuzz_field.cpp (C18 histories vs fresh object), fuzz_inputs.cpp (C17 text readers); run as "
                                     "sub-checks of the same driver (16 campaigns each), a crash-/ORACLE-VIOLATION artifact becomes the replay input"),
                 dict(name="api-under-sanitizers", path="vlib/apisan.py", serves_properties=["C17"],
                      kind_free_text="generators of 26 API-level sub-checks re-run against an ASan+UBSan build of the shim (C17 apisan)")],
        checks=[], not_applicable=[],
        notes="All checks: ./check <ID> --tier quick|thorough; evidence in evidence/<ID>.json; known findings in known_findings.json.")
    for p in props:
        if p in CHECKS:
            c = CHECKS[p]
            m["checks"].append(dict(
                property_id=p, quick_cmd="./check %s --tier quick" % p, thorough_cmd="./check %s --tier thorough" % p,
                evidence_file="evidence/%s.json" % p, replay_cmd_template="./check %s --replay {path}" % p,
                engine="hypothesis-shim",
                level_claimed=dict(category=c.get("category", "exploration"), text=c["text"], design_ref=c["ref"]),
                level_note=c.get("note", TRUSTED), technique=c["technique"]))
        else:
            m["not_applicable"].append(dict(property_id=p, reason=NOT_YET))
    with open(os.path.join(VERIF, "MANIFEST.json"), "w") as f:
        json.dump(m, f, indent=1)
    print("checks:", [c["property_id"] for c in m["checks"]])


if __name__ == "__main__":
    main()
