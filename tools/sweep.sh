#!/bin/bash
# stability sweep: every quick check under several VERIF_SEED values; evidence/replays redirected to scratch
cd "$(dirname "$0")/.."
out=${SWEEP_OUT:-/tmp/sweep_out}; mkdir -p $out
for seed in ${@:-11 12 13 14 15}; do
  for i in $(seq -w 1 20); do
    id=C$i
    r=$(VERIF_SEED=$seed VERIF_EVIDENCE_DIR=$out/ev_$seed VERIF_REPLAY_DIR=$out/replays ./check $id --tier quick 2>&1)
    rc=$?
    echo "seed=$seed $id rc=$rc $(echo "$r" | grep -c '^VIOLATION') viol $(echo "$r" | grep -c '^FLAKY') flaky $(echo "$r" | grep '^HEALTH' | head -1 | cut -c1-120)"
    echo "$r" | grep "^VIOLATION\|^  failing\|^FLAKY" | cut -c1-400
  done
done
