#!/usr/bin/env python3
"""Plan every transform length of gen.NPOOL once (one process per length, so that each wisdom file holds only what
that length needs) and store the wisdom files under /verif/wisdom.  Run by hand; the result is committed."""
import os, sys, subprocess, shutil
VERIF = os.path.dirname(os.path.dirname(os.path.abspath(__file__)))
sys.path.insert(0, VERIF)
from vlib import gen

ONE = r'''
import os, sys
sys.path.insert(0, %r)
import numpy as np, build
from vlib import shim
N = int(sys.argv[1])
s = shim.get(build.build("shim"))
n = min(8, N)
s.reset(n, 1)
a = s.ps_new(-6, 6, -6, 6)
imp = s.imp_array(np.ones(N, np.complex64), 1e12)
s.ef_wake(a, imp, [0], 0, 9e6, 1e-3, 1e-3, 1.3e9, 4.7e-4, 1e-10)
''' % VERIF

if __name__ == "__main__":
    out = os.path.join(VERIF, "wisdom")
    os.makedirs(out, exist_ok=True)
    lengths = [int(a) for a in sys.argv[1:]] or gen.NPOOL
    procs = []
    for N in lengths:
        if os.path.exists(os.path.join(out, "wisdom_c2r32_%d.fftw" % N)) and os.path.exists(os.path.join(out, "wisdom_r2c32_%d.fftw" % N)):
            continue
        xdg = os.path.join(VERIF, ".cache", "warm", str(N))
        shutil.rmtree(xdg, ignore_errors=True)
        os.makedirs(xdg)
        env = dict(os.environ, XDG_DATA_HOME=xdg, PYTHONPATH=VERIF)
        procs.append((N, xdg, subprocess.Popen(["python3-vt", "-c", ONE, str(N)], env=env)))
    for N, xdg, p in procs:
        p.wait()
        d = os.path.join(xdg, "inovesa", "fftwisdom")
        for f in os.listdir(d):
            shutil.copy(os.path.join(d, f), os.path.join(out, f))
        shutil.rmtree(xdg, ignore_errors=True)
        print("planned", N)
