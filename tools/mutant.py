#!/usr/bin/env python3
"""Sensitivity testing: apply a change to a scratch copy of /repo (never to /repo itself), run checks against it,
report which checks raise a VIOLATION, delete the copy.

  tools/mutant.py --patch file.diff C02 C08            (unified diff, applied with git apply / patch -p1)
  tools/mutant.py --sub 'src/SM/SourceMap.cpp' 'interpol_t(-1./6.)' 'interpol_t(1./6.)' C01 C02
  options: --tier quick|thorough  --keep
Evidence/replays of these runs go to a scratch directory, not to /verif/evidence."""
import argparse, os, shutil, subprocess, sys, tempfile, time
VERIF = os.path.dirname(os.path.dirname(os.path.abspath(__file__)))


def main():
    ap = argparse.ArgumentParser()
    ap.add_argument("--patch")
    ap.add_argument("--sub", nargs=3, action="append", metavar=("FILE", "OLD", "NEW"))
    ap.add_argument("--tier", default="quick")
    ap.add_argument("--keep", action="store_true")
    ap.add_argument("--seed", default=None)
    ap.add_argument("--only", default=None, help="comma separated sub-check names (passed to ./check)")
    ap.add_argument("checks", nargs="+")
    a = ap.parse_args()
    base = tempfile.mkdtemp(prefix="ivmut_", dir="/tmp")
    repo = os.path.join(base, "repo")
    os.makedirs(repo)
    for item in ("src", "inc", "CMakeLists.txt", "InovesaConfig.hpp.in", "test"):
        src = os.path.join("/repo", item)
        if os.path.isdir(src):
            shutil.copytree(src, os.path.join(repo, item))
        else:
            shutil.copy(src, os.path.join(repo, item))
    try:
        if a.patch:
            r = subprocess.run(["patch", "-p1", "-i", os.path.abspath(a.patch)], cwd=repo, capture_output=True, text=True)
            if r.returncode != 0:
                print("PATCH FAILED\n" + r.stdout + r.stderr)
                return 3
        for f, old, new in a.sub or []:
            p = os.path.join(repo, f)
            t = open(p).read()
            if t.count(old) < 1:
                print("SUB FAILED: %r not found in %s" % (old, f))
                return 3
            open(p, "w").write(t.replace(old, new, 1))
        env = dict(os.environ, VERIF_REPO=repo, VERIF_EVIDENCE_DIR=os.path.join(base, "evidence"),
                   VERIF_REPLAY_DIR=os.path.join(base, "replays"))
        if a.seed:
            env["VERIF_SEED"] = a.seed
        res = {}
        for c in a.checks:
            t0 = time.time()
            r = subprocess.run([os.path.join(VERIF, "check"), c, "--tier", a.tier] + (["--only", a.only] if a.only else []), env=env, capture_output=True, text=True)
            viol = [l for l in r.stdout.splitlines() if l.startswith("VIOLATION") or l.startswith("  failing")]
            res[c] = (r.returncode, viol)
            print("== %s rc=%d %.0fs" % (c, r.returncode, time.time() - t0))
            for l in viol[:6]:
                print("   " + l[:400])
            if r.returncode not in (0, 1):
                print(r.stdout[-1500:], r.stderr[-1500:])
        caught = [c for c, (rc, v) in res.items() if rc == 1]
        print("CAUGHT-BY: %s" % (",".join(caught) or "none"))
        return 0
    finally:
        if not a.keep:
            shutil.rmtree(base, ignore_errors=True)
        else:
            print("kept", base)


if __name__ == "__main__":
    sys.exit(main())
