// h5x — minimal HDF5 helper for the verification harness (the image has neither h5py nor h5dump).
//   h5x dump <file.h5> <outdir>     every dataset -> raw little-endian bytes <outdir>/<n>.bin ; <outdir>/index.json
//                                    lists name, dtype, shape, attributes (of datasets and groups) and soft links
//   h5x mkds <file.h5> <dataset path> <raw float32 file | -> <d0> [d1 ...]
//                                    create a file holding one float32 dataset of the given shape (chunked,
//                                    unlimited first dimension like Inovesa's own) filled from the raw file
//                                    ('-' = zeros); intermediate groups are created
#include <H5Cpp.h>
#include <cstdio>
#include <cstring>
#include <fstream>
#include <iostream>
#include <sstream>
#include <string>
#include <vector>

static std::string jesc(const std::string& s)
{
    std::string o;
    for (char c : s) {
        if (c == '"' || c == '\\') { o += '\\'; o += c; }
        else if (static_cast<unsigned char>(c) < 0x20) { char b[8]; std::snprintf(b, 8, "\\u%04x", c); o += b; }
        else o += c;
    }
    return o;
}

struct Ctx {
    std::string outdir;
    std::ostringstream js;
    int n = 0;
    bool first = true;
};

static std::string attrs_json(H5::H5Object& obj)
{
    std::ostringstream a;
    a << "{";
    int na = obj.getNumAttrs();
    bool first = true;
    for (int i = 0; i < na; i++) {
        H5::Attribute at = obj.openAttribute(static_cast<unsigned>(i));
        H5::DataType t = at.getDataType();
        H5::DataSpace sp = at.getSpace();
        if (sp.getSimpleExtentNpoints() != 1) continue;
        char buf[64];
        std::string val;
        if (t.getClass() == H5T_FLOAT) {
            double d = 0;
            at.read(H5::PredType::NATIVE_DOUBLE, &d);
            std::snprintf(buf, sizeof buf, "\"%a\"", d);
            val = buf;
        } else if (t.getClass() == H5T_INTEGER) {
            long long v = 0;
            at.read(H5::PredType::NATIVE_LLONG, &v);
            std::snprintf(buf, sizeof buf, "%lld", v);
            val = buf;
        } else continue;
        if (!first) a << ",";
        first = false;
        a << "\"" << jesc(at.getName()) << "\":" << val;
    }
    a << "}";
    return a.str();
}

static void walk(H5::Group& g, const std::string& path, Ctx& c)
{
    hsize_t nobj = g.getNumObjs();
    for (hsize_t i = 0; i < nobj; i++) {
        std::string name = g.getObjnameByIdx(i);
        std::string full = path + "/" + name;
        H5L_info_t li;
        H5Lget_info(g.getId(), name.c_str(), &li, H5P_DEFAULT);
        if (li.type == H5L_TYPE_SOFT) {
            std::vector<char> buf(li.u.val_size + 1, 0);
            H5Lget_val(g.getId(), name.c_str(), buf.data(), buf.size(), H5P_DEFAULT);
            if (!c.first) c.js << ",\n";
            c.first = false;
            c.js << "{\"name\":\"" << jesc(full) << "\",\"kind\":\"softlink\",\"target\":\"" << jesc(buf.data()) << "\"}";
            continue;
        }
        H5G_obj_t ty = g.getObjTypeByIdx(i);
        if (ty == H5G_GROUP) {
            H5::Group sub = g.openGroup(name);
            if (!c.first) c.js << ",\n";
            c.first = false;
            c.js << "{\"name\":\"" << jesc(full) << "\",\"kind\":\"group\",\"attrs\":" << attrs_json(sub) << "}";
            walk(sub, full, c);
        } else if (ty == H5G_DATASET) {
            H5::DataSet ds = g.openDataSet(name);
            H5::DataSpace sp = ds.getSpace();
            int rank = sp.getSimpleExtentNdims();
            std::vector<hsize_t> dims(rank > 0 ? rank : 1, 1);
            if (rank > 0) sp.getSimpleExtentDims(dims.data());
            size_t npts = sp.getSimpleExtentNpoints();
            H5::DataType t = ds.getDataType();
            std::string dt;
            H5::PredType mem = H5::PredType::NATIVE_FLOAT;
            size_t es = 4;
            if (t.getClass() == H5T_FLOAT && t.getSize() == 4) { dt = "f4"; mem = H5::PredType::NATIVE_FLOAT; es = 4; }
            else if (t.getClass() == H5T_FLOAT) { dt = "f8"; mem = H5::PredType::NATIVE_DOUBLE; es = 8; }
            else if (t.getClass() == H5T_INTEGER && t.getSize() == 4) {
                H5::IntType it = ds.getIntType();
                if (it.getSign() == H5T_SGN_NONE) { dt = "u4"; mem = H5::PredType::NATIVE_UINT32; }
                else { dt = "i4"; mem = H5::PredType::NATIVE_INT32; }
                es = 4;
            } else if (t.getClass() == H5T_STRING) { dt = "S1"; mem = H5::PredType::C_S1; es = 1; }
            else { dt = "raw"; es = t.getSize(); }
            std::vector<char> buf(npts * es + 8);
            if (npts > 0) {
                if (dt == "raw") ds.read(buf.data(), t);
                else ds.read(buf.data(), mem);
            }
            char fn[64];
            std::snprintf(fn, sizeof fn, "%d.bin", c.n++);
            std::ofstream of(c.outdir + "/" + fn, std::ios::binary);
            of.write(buf.data(), npts * es);
            of.close();
            if (!c.first) c.js << ",\n";
            c.first = false;
            c.js << "{\"name\":\"" << jesc(full) << "\",\"kind\":\"dataset\",\"dtype\":\"" << dt << "\",\"shape\":[";
            for (int d = 0; d < rank; d++) c.js << (d ? "," : "") << dims[d];
            c.js << "],\"file\":\"" << fn << "\",\"attrs\":" << attrs_json(ds) << "}";
        }
    }
}

static int dump(const char* file, const char* outdir)
{
    H5::Exception::dontPrint();
    try {
        H5::H5File f(file, H5F_ACC_RDONLY);
        Ctx c;
        c.outdir = outdir;
        c.js << "[\n";
        H5::Group root = f.openGroup("/");
        walk(root, "", c);
        c.js << "\n]\n";
        std::ofstream of(std::string(outdir) + "/index.json");
        of << c.js.str();
        return 0;
    } catch (H5::Exception& e) {
        std::cerr << "h5x: HDF5 error: " << e.getDetailMsg() << std::endl;
        return 3;
    }
}

static int mkds(int argc, char** argv)
{
    // h5x mkds file dspath rawfile d0 d1 ...
    std::string file = argv[2], dspath = argv[3], raw = argv[4];
    std::vector<hsize_t> dims;
    for (int i = 5; i < argc; i++) dims.push_back(std::strtoull(argv[i], nullptr, 10));
    size_t npts = 1;
    for (auto d : dims) npts *= d;
    std::vector<float> data(npts ? npts : 1, 0.0f);
    if (raw != "-") {
        std::ifstream in(raw, std::ios::binary);
        in.read(reinterpret_cast<char*>(data.data()), npts * sizeof(float));
    }
    try {
        H5::H5File f(file, H5F_ACC_TRUNC);
        // create intermediate groups
        size_t pos = 1;
        while ((pos = dspath.find('/', pos)) != std::string::npos) {
            f.createGroup(dspath.substr(0, pos));
            pos++;
        }
        std::vector<hsize_t> maxd = dims, chunk = dims;
        for (auto& d : maxd) d = std::max<hsize_t>(d, 1);
        for (auto& d : chunk) d = std::max<hsize_t>(d, 1);
        if (!dims.empty()) { maxd[0] = H5S_UNLIMITED; chunk[0] = 1; }
        H5::DataSpace sp(static_cast<int>(dims.size()), dims.data(), maxd.data());
        H5::DSetCreatPropList prop;
        if (!dims.empty()) prop.setChunk(static_cast<int>(dims.size()), chunk.data());
        H5::DataSet ds = f.createDataSet(dspath, H5::PredType::IEEE_F32LE, sp, prop);
        if (npts) ds.write(data.data(), H5::PredType::NATIVE_FLOAT);
        return 0;
    } catch (H5::Exception& e) {
        std::cerr << "h5x: HDF5 error: " << e.getDetailMsg() << std::endl;
        return 3;
    }
}

int main(int argc, char** argv)
{
    if (argc >= 4 && std::strcmp(argv[1], "dump") == 0) return dump(argv[2], argv[3]);
    if (argc >= 5 && std::strcmp(argv[1], "mkds") == 0) return mkds(argc, argv);
    std::cerr << "usage: h5x dump file outdir | h5x mkds file dspath rawfile|- d0 [d1...]" << std::endl;
    return 2;
}
