#!/bin/bash
# run the given checks (default tier thorough) one after the other; one line per check
cd "$(dirname "$0")/.."
tier=${TIER:-thorough}
for id in "$@"; do
  s=$(date +%s)
  out=$(./check $id --tier $tier 2>&1)
  rc=$?
  e=$(date +%s)
  echo "$id rc=$rc $((e-s))s $(echo "$out" | grep -c '^VIOLATION') violations; $(echo "$out" | grep '^HEALTH' | head -2 | tr '\n' ' ' | cut -c1-200)"
  echo "$out" | grep "^VIOLATION\|^  failing\|KNOWN-FINDING" | cut -c1-300
done
