// libFuzzer target for C17: the three text-file readers and the impedance factory, byte for byte.
// bytes -> scratch file -> Impedance(file) / makeImpedance(..., file) / makePSFromTXT / tracking-file parsing as main() does.
// Oracle inside the target: no sanitizer report, and the returned objects have the promised shapes.
#define INOVESA_ALLOW_PS_RESET 1
#include "defines.hpp"
#include "IO/Display.hpp"
#include "PS/PhaseSpace.hpp"
#include "PS/PhaseSpaceFactory.hpp"
#include "Z/Impedance.hpp"
#include "Z/ImpedanceFactory.hpp"

#include <fuzzer/FuzzedDataProvider.h>
#include <cstdio>
#include <cstdlib>
#include <fstream>
#include <string>
#include <unistd.h>

using namespace vfps;

static std::string g_dir;

static void write_file(const std::string& path, const std::string& content)
{
    std::ofstream f(path, std::ios::binary | std::ios::trunc);
    f.write(content.data(), static_cast<std::streamsize>(content.size()));
}

extern "C" int LLVMFuzzerInitialize(int*, char***)
{
    const char* d = std::getenv("VERIF_FUZZ_DIR");
    g_dir = d ? d : ".";
    g_dir += "/fz_" + std::to_string(getpid());
    std::string cmd = "mkdir -p " + g_dir;
    if (std::system(cmd.c_str()) != 0) { std::abort(); }
    Display::silent_mode = true;
    return 0;
}

static void fail(const char* what)
{
    std::fprintf(stderr, "ORACLE-VIOLATION: %s\n", what);
    std::fflush(stderr);
    __builtin_trap();
}

extern "C" int LLVMFuzzerTestOneInput(const uint8_t* data, size_t size)
{
    FuzzedDataProvider fdp(data, size);
    const int which = fdp.ConsumeIntegralInRange<int>(0, 3);
    const unsigned n = fdp.ConsumeIntegralInRange<unsigned>(2, 96);          // frequency grid / mesh size
    const bool csr = fdp.ConsumeBool();
    const int gapsel = fdp.ConsumeIntegralInRange<int>(0, 2);
    const std::string content = fdp.ConsumeRemainingBytesAsString();
    PhaseSpace::resetSize();                                                 // nothing leaks between iterations
    try {
        if (which == 0) {
            const std::string path = g_dir + "/imp.dat";
            write_file(path, content);
            Impedance z(path, 1e12);
            if (z.size() != z.nFreqs()) fail("Impedance(file): size() != nFreqs()");
            Impedance sum(n, 1e12f);
            sum += z;
            if (sum.size() != n || sum.nFreqs() != n) fail("Impedance += file impedance changed the length");
        } else if (which == 1) {
            const std::string path = g_dir + "/imp.dat";
            write_file(path, content);
            const double gap = gapsel == 0 ? 0.0 : (gapsel == 1 ? 0.03 : -1.0);
            auto z = makeImpedance(n, nullptr, 1e11f, 5.3, 9e6, gap, csr, 1e6, 0.0, 0.005, path);
            if (!z) fail("factory returned nothing although a file was selected");
            if (z->size() != n || z->nFreqs() != n) fail("factory result has the wrong length");
        } else if (which == 2) {
            const std::string path = g_dir + "/start.txt";
            write_file(path, content);
            auto ps = makePSFromTXT(path, n, -6, 6, -6, 6, nullptr, 1, 1, 1e-3, 6e5);
            if (ps) {
                volatile float sink = 0;
                for (unsigned i = 0; i < PhaseSpace::nxyb; i++) sink = sink + ps->getData()[i];
            }
        } else {
            // tracking file: exactly the loop of main.cpp
            PhaseSpace::setSize(n, 1);
            PhaseSpace grid(-6, 6, 1e-3, -6, 6, 6e5, nullptr, 1, 1);
            const std::string path = g_dir + "/track.txt";
            write_file(path, content);
            std::ifstream trackingfile(path);
            meshaxis_t q, p;
            while (trackingfile >> q >> p) {
                const meshaxis_t x = grid.x(q), y = grid.y(p);
                if (!(x >= 0 && x <= n - 1.0f) || !(y >= 0 && y <= n - 1.0f)) fail("tracked start position outside the grid");
                volatile meshaxis_t sink = grid.q(static_cast<meshindex_t>(x)) + grid.p(static_cast<meshindex_t>(y));
                (void)sink;
            }
        }
    } catch (const std::exception&) {
        // clean rejection is fine
    }
    return 0;
}
