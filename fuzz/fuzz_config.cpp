// libFuzzer target for C13 (and the crash clause of C17 / C20): configuration text, byte for byte.
//
// input  = <config file bytes> [ 0x00 <command-line arguments, one per line> ]
// A      = parse(--config=<file> <args...>)            rejected (exception / "do not run") -> fine, nothing to judge
// saved  = A.save()                                     the .cfg Inovesa writes next to its results
// B      = parse(--config=saved)                        must be accepted
// oracle = every getter of A == the same getter of B    (C13: the saved configuration reproduces the invocation)
// saved2 = B.save(); C = parse(--config=saved2)         B is itself an invocation: its .cfg must reproduce it too
//
// Exclusions are the documented ones of checks/c13.py: run_anyway is deliberately not written; alpha0 is not compared when
// a synchrotron frequency is in use (it overrides alpha0); command-line string values are restricted to printable
// characters without blanks and '#' (boost's config-file grammar cannot carry those; config-file bytes are arbitrary).
#include "defines.hpp"
#include "IO/Display.hpp"
#include "IO/ProgramOptions.hpp"

#include <cmath>
#include <cstdio>
#include <cstdlib>
#include <cstring>
#include <fstream>
#include <iostream>
#include <map>
#include <sstream>
#include <string>
#include <unistd.h>
#include <vector>

using namespace vfps;

static std::string g_dir;
static std::ostringstream g_sink;

extern "C" int LLVMFuzzerInitialize(int*, char***)
{
    const char* d = std::getenv("VERIF_FUZZ_DIR");
    g_dir = d ? d : ".";
    g_dir += "/fzc_" + std::to_string(getpid());
    std::string cmd = "mkdir -p " + g_dir;
    if (std::system(cmd.c_str()) != 0) { std::abort(); }
    if (chdir(g_dir.c_str()) != 0) { std::abort(); }      // no stray default.cfg in the working directory
    Display::silent_mode = true;
    std::cout.rdbuf(g_sink.rdbuf());                      // parse() prints help texts and warnings
    return 0;
}

static void fail(const std::string& what)
{
    std::fprintf(stderr, "ORACLE-VIOLATION: %s\n", what.c_str());
    std::fflush(stderr);
    __builtin_trap();
}

static std::string num(double v)
{
    if (std::isnan(v)) return "nan";
    char b[64];
    std::snprintf(b, sizeof b, "%a", v);
    return b;
}

typedef std::map<std::string, std::string> getters_t;

static getters_t getters(const ProgramOptions& o)
{
    getters_t g;
#define N(name) g[#name] = num(static_cast<double>(o.get##name()))
#define S(name) g[#name] = o.get##name()
    N(CLDevice); S(ImpedanceFile); S(OutFile); N(SavePhaseSpace); S(StartDistFile); N(StartDistStep); S(ParticleTracking);
    N(Verbosity); N(GridSize); N(OutSteps); N(Padding); N(RoundPadding); N(StepsPerTsync); N(StepsPerTrev); N(NRotations);
    N(PhaseSpaceSize); N(PSShiftX); N(PSShiftY); N(RenormalizeCharge); N(FPTrack); N(FPType); N(DerivationType);
    N(InterpolationPoints); N(InterpolationClamped); N(Alpha0); N(Alpha1); N(Alpha2); N(RFAmplitudeSpread); N(RFPhaseSpread);
    N(RFPhaseModAmplitude); N(RFPhaseModFrequency); N(BeamEnergy); N(BendingRadius); N(CutoffFrequency); N(EnergySpread);
    N(HarmonicNumber); N(RevolutionFrequency); N(RFVoltage); N(StartDistZoom); N(SyncFreq); N(DampingTime);
    N(VacuumChamberGap); N(UseCSR); N(LinearRF); N(CollimatorRadius); N(WallConductivity); N(WallSusceptibility);
#undef N
#undef S
    std::string bc;
    for (auto v : o.getBunchCurrents()) bc += num(static_cast<double>(v)) + ",";
    g["BunchCurrents"] = bc;
    return g;
}

// returns true when the invocation is accepted ("run")
static bool parse(ProgramOptions& o, const std::vector<std::string>& args)
{
    std::vector<char*> argv;
    static std::string prog = "inovesa";
    argv.push_back(const_cast<char*>(prog.c_str()));
    for (auto& a : args) argv.push_back(const_cast<char*>(a.c_str()));
    g_sink.str("");
    try {
        return o.parse(static_cast<int>(argv.size()), argv.data());
    } catch (const std::exception&) {
        return false;                                      // clean rejection
    }
}

static std::string slurp(const std::string& p)
{
    std::ifstream f(p, std::ios::binary);
    std::stringstream s;
    s << f.rdbuf();
    return s.str();
}

static void compare(const getters_t& a, const getters_t& b, const char* stage, const std::string& cfg)
{
    const bool fs_used = a.at("SyncFreq") != num(0.0);
    for (auto& kv : a) {
        if (kv.first == "Alpha0" && fs_used) continue;
        auto it = b.find(kv.first);
        if (it == b.end() || it->second != kv.second) {
            fail(std::string(stage) + ": getter " + kv.first + " is '" + kv.second + "' for the invocation and '"
                 + (it == b.end() ? "?" : it->second) + "' for its saved configuration:\n" + cfg);
        }
    }
}

extern "C" int LLVMFuzzerTestOneInput(const uint8_t* data, size_t size)
{
    const uint8_t* z = static_cast<const uint8_t*>(std::memchr(data, 0, size));
    const size_t ncfg = z ? static_cast<size_t>(z - data) : size;
    const std::string cfgtext(reinterpret_cast<const char*>(data), ncfg);
    std::vector<std::string> args;
    const std::string cfgpath = g_dir + "/in.cfg";
    {
        std::ofstream f(cfgpath, std::ios::binary | std::ios::trunc);
        f.write(cfgtext.data(), static_cast<std::streamsize>(cfgtext.size()));
    }
    args.push_back("--config=" + cfgpath);
    if (z) {
        std::string rest(reinterpret_cast<const char*>(z + 1), size - ncfg - 1);
        std::stringstream ss(rest);
        std::string line;
        while (std::getline(ss, line) && args.size() < 10) {
            if (line.empty()) continue;
            for (unsigned char c : line) {
                if (c < 0x21 || c > 0x7e || c == '#') return 0;     // outside what a config file can carry (documented)
            }
            args.push_back(line);
        }
    }
    ProgramOptions A;
    if (!parse(A, args)) return 0;
    const getters_t gA = getters(A);
    const std::string saved = g_dir + "/saved.cfg";
    A.save(saved);
    ProgramOptions B;
    if (!parse(B, {"--config=" + saved})) {
        fail("the saved configuration of an accepted invocation is rejected:\n" + slurp(saved));
    }
    const getters_t gB = getters(B);
    compare(gA, gB, "first generation", slurp(saved));
    const std::string saved2 = g_dir + "/saved2.cfg";
    B.save(saved2);
    ProgramOptions C;
    if (!parse(C, {"--config=" + saved2})) {
        fail("the configuration saved by a run from a saved configuration is rejected:\n" + slurp(saved2));
    }
    compare(gB, getters(C), "second generation", slurp(saved2));
    return 0;
}
