// libFuzzer target for the transport maps (C02 whole-cell shifts, C01 conservation, C15 in-grid particles, C17 memory safety).
//
// bytes -> grid size, bunches, interpolation order, kick axis, one displacement per row and bunch, data, particles
// mode 0  whole-cell shifts: out[r][c] == in[r][c+k_r] bit for bit, zeros flowing in (C02)
// mode 1  fractional displacements, data placed clear of the border: plain sum conserved to rounding (C01);
//         particles anywhere on the grid stay on the grid and finite after applyTo (C15)
// mode 2  arbitrary binary32 displacements (huge, negative, NaN, inf - a wake computed from a legal impedance file can
//         overflow): no oracle on the values, the sanitizers judge (C17); particles must still end on the grid (C15)
#define INOVESA_ALLOW_PS_RESET 1
#include "defines.hpp"
#include "IO/Display.hpp"
#include "PS/PhaseSpace.hpp"
#include "SM/KickMap.hpp"

#include <fuzzer/FuzzedDataProvider.h>
#include <cmath>
#include <cstdio>
#include <cstdlib>
#include <cstring>
#include <memory>
#include <string>
#include <vector>

using namespace vfps;

static std::string g_desc;
// which oracle this campaign serves (VERIF_MAPS_ORACLE): 0 all, 1 shift (C02), 2 sum (C01), 3 ingrid (C15), 4 memory only (C17)
static int g_oracle = 0;

extern "C" int LLVMFuzzerInitialize(int*, char***)
{
    Display::silent_mode = true;
    const char* o = std::getenv("VERIF_MAPS_ORACLE");
    const std::string s = o ? o : "";
    g_oracle = s == "shift" ? 1 : s == "sum" ? 2 : s == "ingrid" ? 3 : s == "memory" ? 4 : 0;
    return 0;
}

static void fail(const std::string& what)
{
    std::fprintf(stderr, "ORACLE-VIOLATION: %s\n  configuration: %s\n", what.c_str(), g_desc.c_str());
    std::fflush(stderr);
    __builtin_trap();
}

static float any_finite_float(FuzzedDataProvider& fdp)
{
    uint32_t b = fdp.ConsumeIntegral<uint32_t>();
    if (((b >> 23) & 0xFF) == 0xFF) b &= 0xBFFFFFFFu;
    float f;
    std::memcpy(&f, &b, 4);
    return f;
}

extern "C" int LLVMFuzzerTestOneInput(const uint8_t* data, size_t size)
{
    if (size < 6) return 0;
    FuzzedDataProvider fdp(data, size);
    unsigned mode = fdp.ConsumeIntegralInRange<unsigned>(0, 2);
    if (g_oracle == 1) mode = 0;
    if (g_oracle == 2) mode = 1;
    if (g_oracle == 3 && mode == 0) mode = 1;
    if (g_oracle == 4) mode = 2;
    const unsigned n = fdp.ConsumeIntegralInRange<unsigned>(4, 40);
    unsigned nb = fdp.ConsumeIntegralInRange<unsigned>(1, 3);
    if (g_oracle == 3) nb = 1;                // particle tracking is offered for a single bunch only
    const unsigned it = fdp.ConsumeIntegralInRange<unsigned>(1, 4);
    const bool ykick = fdp.ConsumeBool();
    const bool clamp = (mode == 2) ? fdp.ConsumeBool() : false;
    char buf[160];
    std::snprintf(buf, sizeof buf, "mode=%u n=%u nb=%u it=%u axis=%s clamp=%d", mode, n, nb, it, ykick ? "y" : "x", int(clamp));
    g_desc = buf;

    PhaseSpace::resetSize(n, nb);
    std::vector<integral_t> filling(nb, 1.0f / nb);
    auto in = std::make_shared<PhaseSpace>(-6, 6, 1e-3, -6, 6, 6e5, nullptr, 1, 1, filling, 1, nullptr);
    auto out = std::make_shared<PhaseSpace>(-6, 6, 1e-3, -6, 6, 6e5, nullptr, 1, 1, filling, 1, nullptr);
    const int lo = -static_cast<int>(n / 2), hi = static_cast<int>(n) - 1 - static_cast<int>(n / 2);

    // one displacement per row and bunch
    std::vector<meshaxis_t> off(size_t(n) * nb);
    std::vector<meshaxis_t> keep;
    for (auto& o : off) {
        if (mode == 0) {
            o = static_cast<meshaxis_t>(fdp.ConsumeIntegralInRange<int>(lo, hi));
        } else if (mode == 1) {
            const int q = fdp.ConsumeIntegralInRange<int>(-64 * int(n / 4), 64 * int(n / 4));     // multiples of 1/64 cell, |o| <= n/4
            o = static_cast<meshaxis_t>(q) / 64.0f + (fdp.ConsumeBool() ? 1.0f / 1024 : 0.0f);
        } else {
            const unsigned k = fdp.ConsumeIntegralInRange<unsigned>(0, 7);
            if (k == 0) o = std::nanf("");
            else if (k == 1) o = INFINITY;
            else if (k == 2) o = -INFINITY;
            else if (k == 3) o = any_finite_float(fdp);
            else if (k == 4) o = static_cast<meshaxis_t>(fdp.ConsumeIntegralInRange<int>(-3 * int(n), 3 * int(n)));
            else o = static_cast<meshaxis_t>(fdp.ConsumeIntegralInRange<int>(-256 * int(n), 256 * int(n))) / 128.0f;
        }
    }
    // a kick along x (the drift) is the same for every bunch: KickMap uses the first block for all of them
    if (!ykick) for (unsigned b = 1; b < nb; b++) for (unsigned r = 0; r < n; r++) off[size_t(b) * n + r] = off[r];
    keep = off;

    // data: data[b][x][y] at b*n*n + x*n + y
    meshdata_t* din = in->getData();
    const size_t cells = size_t(n) * n * nb;
    for (size_t i = 0; i < cells; i++) din[i] = 0;
    if (mode == 0) {
        for (size_t i = 0; i < cells; i++) din[i] = any_finite_float(fdp);
    } else {
        for (unsigned b = 0; b < nb; b++) for (unsigned r = 0; r < n; r++) {
            const float o = keep[size_t(b) * n + r];
            unsigned m = 3;
            if (mode == 1) m = static_cast<unsigned>(std::ceil(std::fabs(o))) + it + 1;
            for (unsigned c = 0; c < n; c++) {
                const bool inside = (mode == 2) || (c >= m && c + m <= n - 1);
                const float v = inside ? (static_cast<int>(fdp.ConsumeIntegral<uint8_t>()) - 96) / 32.0f : 0.0f;
                const size_t idx = ykick ? (size_t(b) * n * n + size_t(r) * n + c) : (size_t(b) * n * n + size_t(c) * n + r);
                din[idx] = v;
            }
        }
    }
    std::vector<meshdata_t> before(din, din + cells);
    for (size_t i = 0; i < cells; i++) out->getData()[i] = 12345.0f;     // stale content of the target must not matter

    KickMap map(in, out, static_cast<SourceMap::InterpolationType>(it), clamp, ykick ? KickMap::Axis::y : KickMap::Axis::x, nullptr);
    map.swapOffset(off);
    map.apply();
    const meshdata_t* dout = out->getData();

    if (mode == 0 && g_oracle <= 1) {
        for (unsigned b = 0; b < nb; b++) for (unsigned r = 0; r < n; r++) {
            const int k = static_cast<int>(keep[size_t(b) * n + r]);
            for (unsigned c = 0; c < n; c++) {
                const int src = static_cast<int>(c) + k;
                const size_t io = ykick ? (size_t(b) * n * n + size_t(r) * n + c) : (size_t(b) * n * n + size_t(c) * n + r);
                float want = 0.0f;
                if (src >= 0 && src < static_cast<int>(n)) {
                    const size_t ii = ykick ? (size_t(b) * n * n + size_t(r) * n + src) : (size_t(b) * n * n + size_t(src) * n + r);
                    want = before[ii] + 0.0f;                      // -0.0 cannot survive "0 + x*1"
                }
                uint32_t x, y;
                const float got = dout[io];
                std::memcpy(&x, &got, 4);
                std::memcpy(&y, &want, 4);
                if (x != y) {
                    std::snprintf(buf, sizeof buf, "whole-cell shift not bit-exact: bunch %u row %u cell %u shift %d got %a want %a", b, r, c, k, got, want);
                    fail(buf);
                }
            }
        }
    } else if (mode == 1 && (g_oracle == 0 || g_oracle == 2)) {
        double s0 = 0, s1 = 0, sa = 0;
        for (size_t i = 0; i < cells; i++) { s0 += before[i]; s1 += dout[i]; sa += std::fabs(before[i]); }
        if (!(std::fabs(s1 - s0) <= 2e-6 * sa + 1e-30)) {
            std::snprintf(buf, sizeof buf, "charge not conserved: sum before %.9g after %.9g (sum |data| %.9g)", s0, s1, sa);
            fail(buf);
        }
    }
    // tracked particles: anywhere on the grid, incl. the edges
    const unsigned np = (g_oracle == 0 || g_oracle == 3) ? fdp.ConsumeIntegralInRange<unsigned>(0, 6) : 0;
    for (unsigned i = 0; i < np; i++) {
        PhaseSpace::Position p;
        const unsigned kx = fdp.ConsumeIntegralInRange<unsigned>(0, 64 * (n - 1));
        const unsigned ky = fdp.ConsumeIntegralInRange<unsigned>(0, 64 * (n - 1));
        p.x = kx / 64.0f;
        p.y = ky / 64.0f;
        if (nb > 1) continue;        // applyTo uses the first bunch's block; multi-bunch tracking is not offered by main
        map.applyTo(p);
        if (!(p.x >= 0 && p.x <= n - 1.0f && p.y >= 0 && p.y <= n - 1.0f)) {
            std::snprintf(buf, sizeof buf, "tracked particle left the grid: (%g, %g) on a %ux%u grid (start %g, %g)", p.x, p.y, n, n, kx / 64.0f, ky / 64.0f);
            fail(buf);
        }
    }
    return 0;
}
