// libFuzzer target for C18 (stateful, coverage-guided): histories of requests on ONE long-lived ElectricField.
//
// bytes -> configuration (n, bunches, bucket numbers, spacing, transform length from the planned pool, constructor flavour,
//          impedance samples incl. exact zeros) + a history of operations {set profile, wake, pad, csr(cutoff)}
// oracle  (inside the target): after every wake / pad / csr request a FRESH field object with the same constructor
//          arguments is given the current profiles and asked the same single question; every result buffer must be
//          bit-identical (C18).  ASan/UBSan make memory errors of the field code visible at the same time (C17).
//
// Nothing leaks between iterations: the global grid size is reset and all objects are rebuilt per input.  FFTW wisdom
// is read from $XDG_DATA_HOME (seeded by the runner with /verif/wisdom), the same for both sides of every comparison.
#define INOVESA_ALLOW_PS_RESET 1
#include "defines.hpp"
#include "IO/Display.hpp"
#include "PS/PhaseSpace.hpp"
#include "PS/ElectricField.hpp"
#include "Z/Impedance.hpp"

#include <fuzzer/FuzzedDataProvider.h>
#include <boost/multi_array.hpp>
#include <cmath>
#include <cstdio>
#include <cstdlib>
#include <cstring>
#include <memory>
#include <string>
#include <vector>

using namespace vfps;

static const unsigned POOL[] = {16, 24, 31, 32, 45, 48, 61, 64, 81, 96, 100, 127, 128, 131, 150, 192, 200, 243, 256, 257, 300, 384};
static const unsigned NPOOL = sizeof(POOL) / sizeof(POOL[0]);

static std::string g_desc;

extern "C" int LLVMFuzzerInitialize(int*, char***)
{
    Display::silent_mode = true;
    return 0;
}

static void fail(const std::string& what)
{
    std::fprintf(stderr, "ORACLE-VIOLATION: %s\n  configuration: %s\n", what.c_str(), g_desc.c_str());
    std::fflush(stderr);
    __builtin_trap();
}

struct Config {
    unsigned n, nb, spacing, N;
    std::vector<uint32_t> buckets;
    bool wakecap;
    std::shared_ptr<Impedance> imp;
};

static std::shared_ptr<ElectricField> make_field(const Config& c, std::shared_ptr<PhaseSpace> ps)
{
    if (c.wakecap) {
        return std::make_shared<ElectricField>(ps, c.imp, c.buckets, c.spacing, nullptr, 9e6, 1e-3f, 1e-3, 1.3e9, 4.7e-4, 1e-10);
    }
    return std::make_shared<ElectricField>(ps, c.imp, c.buckets, c.spacing, nullptr, 9e6, 1e-3f);
}

static bool same(const float* a, const float* b, size_t n, size_t* where)
{
    for (size_t i = 0; i < n; i++) {
        uint32_t x, y;
        std::memcpy(&x, a + i, 4);
        std::memcpy(&y, b + i, 4);
        if (x != y) { *where = i; return false; }
    }
    return true;
}

extern "C" int LLVMFuzzerTestOneInput(const uint8_t* data, size_t size)
{
    if (size < 8) return 0;
    FuzzedDataProvider fdp(data, size);
    Config c;
    c.n = fdp.ConsumeIntegralInRange<unsigned>(8, 24);
    c.nb = fdp.ConsumeIntegralInRange<unsigned>(1, 3);
    const unsigned nbuckets = c.nb + fdp.ConsumeIntegralInRange<unsigned>(0, 2);
    // which buckets are occupied: bucket numbers as main.cpp forms them (reversed index of the non-empty entries)
    std::vector<bool> occ(nbuckets, false);
    {
        unsigned placed = 0, sel = fdp.ConsumeIntegral<uint8_t>();
        for (unsigned i = 0; i < nbuckets && placed < c.nb; i++) {
            const unsigned left = nbuckets - i, need = c.nb - placed;
            if (left == need || ((sel >> i) & 1u)) { occ[i] = true; placed++; }
        }
    }
    unsigned mb = 0;
    for (unsigned i = 0; i < nbuckets; i++) if (occ[i]) { c.buckets.push_back(nbuckets - 1 - i); mb = std::max(mb, nbuckets - 1 - i); }
    c.spacing = mb > 0 ? c.n + fdp.ConsumeIntegralInRange<unsigned>(0, c.n) : fdp.ConsumeIntegralInRange<unsigned>(0, 2 * c.n);
    const unsigned need = mb * c.spacing + c.n;
    unsigned k = 0;
    while (k < NPOOL && POOL[k] < need) k++;
    if (k >= NPOOL) return 0;
    k = std::min(NPOOL - 1, k + fdp.ConsumeIntegralInRange<unsigned>(0, 4));
    c.N = POOL[k];
    c.wakecap = fdp.ConsumeIntegralInRange<unsigned>(0, 3) != 0;
    // impedance: one byte per sample; small bytes are exact zeros (band-limited tables), the rest spans six decades
    std::vector<impedance_t> z(c.N);
    const unsigned zmode = fdp.ConsumeIntegralInRange<unsigned>(0, 3);
    const unsigned zcut = fdp.ConsumeIntegralInRange<unsigned>(0, c.N / 2);
    for (unsigned i = 0; i < c.N; i++) {
        const uint8_t b = fdp.ConsumeIntegral<uint8_t>();
        const float mag = std::pow(10.0f, static_cast<float>(b % 7) - 3.0f) * (1.0f + (b >> 5) * 0.125f);
        const float ph = static_cast<float>(b) * 0.0246f;
        z[i] = (b < 24) ? impedance_t(0, 0) : impedance_t(mag * std::cos(ph), mag * std::sin(ph));
        if (zmode == 1 && i >= zcut) z[i] = impedance_t(0, 0);
        if (zmode == 2 && i < zcut) z[i] = impedance_t(0, 0);
    }
    char buf[256];
    std::snprintf(buf, sizeof buf, "n=%u nb=%u buckets=[%u%s%s] spacing=%u N=%u %s zmode=%u zcut=%u", c.n, c.nb, c.buckets[0],
                  c.nb > 1 ? "," : "", c.nb > 1 ? std::to_string(c.buckets[1]).c_str() : "", c.spacing, c.N,
                  c.wakecap ? "wake-capable" : "csr-only", zmode, zcut);
    g_desc = buf;

    PhaseSpace::resetSize(c.n, c.nb);
    try {
        c.imp = std::make_shared<Impedance>(z, 1e12);
        std::vector<integral_t> filling(c.nb, 1.0f / c.nb);
        auto ps = std::make_shared<PhaseSpace>(-6, 6, 1e-3, -6, 6, 6e5, nullptr, 1, 1, filling, 1, nullptr);
        auto field = make_field(c, ps);
        std::string hist;
        unsigned nops = 0;
        while (fdp.remaining_bytes() > 0 && nops < 32) {
            nops++;
            const unsigned op = fdp.ConsumeIntegralInRange<unsigned>(0, 6);
            if (op <= 1) {
                // install a new profile for one bunch
                const unsigned b = fdp.ConsumeIntegralInRange<unsigned>(0, c.nb - 1);
                const unsigned kind = fdp.ConsumeIntegralInRange<unsigned>(0, 3);
                const float scale = std::pow(10.0f, static_cast<float>(fdp.ConsumeIntegralInRange<int>(-3, 3)));
                boost::multi_array<projection_t, 1> pr(boost::extents[c.n]);
                for (unsigned i = 0; i < c.n; i++) {
                    const uint8_t v = fdp.ConsumeIntegral<uint8_t>();
                    float x = 0;
                    if (kind == 0) x = 0;                                          // all-zero profile
                    else if (kind == 1) x = (v > 250) ? 1.0f : 0.0f;               // impulses
                    else if (kind == 2) x = (i < c.n / 4) ? v / 255.0f : 0.0f;     // short support
                    else x = (static_cast<int>(v) - 128) / 64.0f;                  // signed noise
                    pr[i] = x * scale;
                }
                ps->setProjection(0, b, pr);
                hist += "s";
                continue;
            }
            int what;           // 0 wake 1 pad 2 csr
            float cutoff = 0;
            if (op <= 3) { what = 0; } else if (op == 4) { what = 1; } else { what = 2; }
            if (what == 0 && !c.wakecap) what = 1;
            if (what == 2) {
                static const float cut[] = {0.0f, 0.0f, 1e9f, 1e11f, -1.0f};
                cutoff = cut[fdp.ConsumeIntegralInRange<unsigned>(0, 4)];
            }
            auto fresh = make_field(c, ps);
            size_t w = 0;
            if (what == 0) {
                field->wakePotential();
                fresh->wakePotential();
                hist += "w";
                if (!same(field->getWakePotentials().data(), fresh->getWakePotentials().data(), size_t(c.nb) * c.n, &w))
                    fail("wake potential after history '" + hist + "' differs from a fresh field at index " + std::to_string(w));
                if (!same(field->getPaddedWakePotential(), fresh->getPaddedWakePotential(), c.N, &w))
                    fail("padded wake potential after history '" + hist + "' differs from a fresh field at index " + std::to_string(w));
                if (!same(field->getPaddedBunchProfiles(), fresh->getPaddedBunchProfiles(), c.N, &w))
                    fail("padded profiles (wake) after history '" + hist + "' differ from a fresh field at index " + std::to_string(w));
            } else if (what == 1) {
                field->padBunchProfiles();
                fresh->padBunchProfiles();
                hist += "p";
                if (!same(field->getPaddedBunchProfiles(), fresh->getPaddedBunchProfiles(), c.N, &w))
                    fail("padded profiles after history '" + hist + "' differ from a fresh field at index " + std::to_string(w));
            } else {
                field->updateCSR(cutoff);
                fresh->updateCSR(cutoff);
                hist += "c";
                if (!same(field->getCSRSpectrum(), fresh->getCSRSpectrum(), size_t(c.nb) * c.N, &w))
                    fail("CSR spectrum after history '" + hist + "' differs from a fresh field at index " + std::to_string(w));
                if (!same(field->getCSRPower(), fresh->getCSRPower(), c.nb, &w))
                    fail("CSR power after history '" + hist + "' differs from a fresh field for bunch " + std::to_string(w));
            }
        }
    } catch (const std::exception&) {
        // a constructor refusing a configuration is a clean rejection
    }
    return 0;
}
