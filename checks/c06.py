"""C06 — wake potential = discrete convolution of the bunch profiles with the impedance (DESIGN.md §3 C06)."""
import numpy as np
from hypothesis import strategies as st

from vlib import gen
from vlib.driver import Outcome, Sub
from vlib import shim as shimmod

LEVEL = "exploration"
RULE = ("generated: n in 8..64, 1-6 buckets with 0-3 empty ones (bucket numbers as main.cpp forms them), spacing >= n, "
        "transform length N from a pool of powers of two / composites / odd / primes (16..1024), arbitrary complex "
        "impedance samples (log-uniform magnitude over 6 decades, any phase; bin floor(N/2) zero in half of the cases, otherwise arbitrary and required to stay unseen), arbitrary profiles "
        "(smooth, impulse, signed noise), machine numbers log-uniform.  Reference: direct O(N^2) float64 DFT. "
        "non-trivial = Im Z != 0 on at least a quarter of the used bins and Z not constant; distinct = case hash. "
        "Metamorphic variants: linearity, shift inside the bucket, independence of the negative-frequency half")
ASSUMPTIONS = ["direct float64 DFT sum of <= 1024 terms is exact to 1e-12 relative"]
TOL_FFT = 3e-6     # * (s/N) * sum_k |Y_k|   (forward error bound of a float FFT)
TOLERANCES = {"wake_abs": "3e-6 * wakescaling * sum_k m_k |Z_k| (|F_k| + 0.3 ||P||_2), m_0 = 1, m_k = 2", "wakescaling_rel": 3e-7}
C_LIGHT = 2.99792458e8


def S():
    return shimmod.get()


def make_Z(r, N, kind):
    mag = 10 ** r.uniform(-3, 3, size=N)
    ph = r.uniform(0, 2 * np.pi, size=N)
    if kind == "real":
        z = mag.astype(np.complex128)
    elif kind == "smooth":
        k = np.arange(N)
        z = (1 + 0.3j) * (k + 1.0) ** 0.33 + 0.2 * np.sin(k / 3.0)
    elif kind == "const":
        z = np.full(N, 1.0 + 0j)
    else:
        z = mag * np.exp(1j * ph)
    if kind == "zerotail":      # band-limited table (a short impedance file is padded with exact zeros)
        z[int(r.uniform(0.02, 0.98) * (N // 2)):] = 0
    elif kind == "sparse":
        z[r.random(N) < 0.5] = 0
    z = z.astype(np.complex64)
    # boundary bin floor(N/2): C06's own statement does not say whether it belongs to "the half", but C07's does (the
    # wake side of the Parseval relation lacks "the zero-frequency and Nyquist terms"), and the anchored mechanism is
    # "multiply first half by Z" (N/2 samples).  Half of the cases therefore carry a value there, which must stay unseen.
    if r.random() < 0.5:
        z[N // 2] = 0
    return z


def make_profiles(r, nb, n, kind):
    if kind == "smooth":
        x = np.arange(n)
        pr = np.stack([np.exp(-0.5 * ((x - r.uniform(0.3, 0.7) * n) / r.uniform(0.05, 0.2) / n) ** 2) * r.uniform(0.1, 3) for _ in range(nb)])
    elif kind == "impulse":
        pr = np.zeros((nb, n))
        for b in range(nb):
            pr[b, r.integers(0, n)] = r.uniform(-2, 2)
    else:
        pr = r.standard_normal((nb, n))
    return pr.astype(np.float32)


def reference(prof, Z, buckets, spacing, N, scale):
    nb, n = prof.shape
    P = np.zeros(N)
    for b in range(nb):
        P[buckets[b] * spacing: buckets[b] * spacing + n] = prof[b].astype(np.float64)   # later bunches overwrite (none overlap)
    k = np.arange(N // 2)
    x = np.arange(N)
    E = np.exp(-2j * np.pi * np.outer(k, x) / N)
    F = E @ P
    Y = Z[:N // 2].astype(np.complex128) * F
    w = np.real(Y[0] + 2 * (np.conj(E[1:]).T @ Y[1:])) if N // 2 > 1 else np.full(N, np.real(Y[0]))
    W = np.stack([scale / N * w[buckets[b] * spacing: buckets[b] * spacing + n] for b in range(nb)])
    # forward-error scale of a float FFT pipeline: every bin of the computed spectrum carries an absolute error
    # of order eps*log2(N)*||P||_2 (<= 0.3*TOL_FFT*||P||_2), which the impedance then multiplies
    Fe = np.abs(F) + 0.3 * np.sqrt((P * P).sum())
    Ye = np.abs(Z[:N // 2].astype(np.complex128)) * Fe
    bound = (Ye[0] + 2 * Ye[1:].sum()) * scale / N
    return P, W, bound, w


def build(case, prof, Z):
    s = S()
    n, nb = case["n"], len(case["buckets"])
    s.reset(n, nb)
    Lq, Lp = case["Lq"], case["Lp"]
    fill = np.full(nb, 1.0 / nb, np.float32)
    ps = s.ps_new(-Lq, Lq, -Lp, Lp, filling=fill, qscale=case["sigma_z"], pscale=case["dE"])
    for b in range(nb):
        s.ps_set_projection(ps, 0, b, prof[b])
    imp = s.imp_array(Z, 1e12)
    ef = s.ef_wake(ps, imp, case["buckets"], case["spacing"], case["frev"], case["revpart"], case["Ib"], case["E0"],
                   case["sE"], case["dt"])
    return s, ps, ef, imp


def scale_of(case):
    n = case["n"]
    delta_p = np.float32((np.float32(case["Lp"]) - np.float32(-case["Lp"])) / np.float32(n - 1))
    return case["Ib"] * case["dt"] * C_LIGHT / case["sigma_z"] / (float(delta_p) * case["sE"] * case["E0"])


def run_case(case):
    n, N = case["n"], case["N"]
    nb = len(case["buckets"])
    r = gen.rng(case["dseed"])
    Z = make_Z(r, N, case["zkind"])
    prof = make_profiles(r, nb, n, case["pkind"])
    s, ps, ef, imp = build(case, prof, Z)
    # "for every set of bunch profiles": whatever the field object was asked before must not matter
    if case.get("intzero"):
        # the grid was integrated while it was still empty (a phase space built from zeros, to be filled later) and only
        # its projection is refreshed afterwards: the field works on the CURRENT profile, not on the total charge the
        # grid remembers (round-10 seeds C06j / C07j return zeros when that remembered charge is zero)
        for b in range(nb):
            s.ps_set_projection(ps, 0, b, np.zeros(n, np.float32))
        s.ps_op(ps, "integrate")
    for op in case.get("prelude", []):
        other = make_profiles(r, nb, n, "noise")
        for b in range(nb):
            s.ps_set_projection(ps, 0, b, other[b] * np.float32(7.0))
        s.ef_do(ef, op[0], op[1] if len(op) > 1 else 0.0)
    if case.get("zadd"):
        # the impedance object the field was built on gets another contribution added in place (Impedance::operator+=, as
        # the unit test forward_wake does) - after the field has possibly answered requests already.  "Impedance times DFT
        # of the profiles" means the impedance as it is at the time of the request
        dZ = make_Z(gen.rng(case["zadd"]), N, "complex")
        s.imp_add(imp, dZ, 1e12)
        Z = (Z.astype(np.complex64) + dZ.astype(np.complex64)).astype(np.complex64)
    for b in range(nb):
        s.ps_set_projection(ps, 0, b, prof[b])
    s.ef_do(ef, "wake")
    W = s.ef_get(ef, "wake").astype(np.float64)
    info = s.ef_info(ef)
    sc = scale_of(case)
    P, Wref, bound, w = reference(prof, Z, case["buckets"], case["spacing"], N, sc)
    used = Z[:N // 2]
    nontriv = bool((np.abs(used.imag) > 0).sum() >= len(used) / 4 and np.ptp(np.abs(used)) > 0)
    cls = [gen.nclass(N), "nb%d" % min(nb, 3), "z_" + case["zkind"], "p_" + case["pkind"], "prelude" if case.get("prelude") else "fresh",
           "emptybuckets" if case["nbuckets"] > nb else "full"]
    met = {}
    # scaling
    ws = float(info["wakescaling"])
    rel = abs(ws - sc / N) / abs(sc / N)
    met["scaling_rel"] = rel
    if rel > 3e-7:
        return Outcome(False, nontriv, cls, "wake scaling %r, expected Ib*dt*c/(sigma_z*dE_cell)/N = %r (N=%d)" % (ws, sc / N, N), sig="c06:scaling", metrics=met)
    # padding
    pad = s.ef_get(ef, "padded_profile")
    if (gen.bits(pad) != gen.bits(P.astype(np.float32))).any():
        i = int(np.argwhere(gen.bits(pad) != gen.bits(P.astype(np.float32)))[0][0])
        return Outcome(False, nontriv, cls, "padded profile train wrong at cell %d: got %r want %r (buckets %s spacing %d n=%d N=%d)" %
                       (i, float(pad[i]), float(P[i]), case["buckets"], case["spacing"], n, N), sig="c06:padding", metrics=met)
    err = np.abs(W - Wref).max()
    tol = TOL_FFT * bound + 1e-30
    met["wake_err_over_bound"] = err / (bound + 1e-300)
    if err > tol:
        b, x = np.unravel_index(np.abs(W - Wref).argmax(), W.shape)
        return Outcome(False, nontriv, cls, "wake potential of bunch %d at cell %d is %.7g, convolution gives %.7g (err %.3g, bound*tol %.3g; n=%d N=%d buckets=%s spacing=%d Z=%s)" %
                       (b, x, W[b, x], Wref[b, x], err, tol, n, N, case["buckets"], case["spacing"], case["zkind"]),
                       sig="c06:wake:%s" % ("bunch0" if b == 0 else "bunch>=1"), metrics=met)
    var = case["variant"]
    if var == "neghalf":
        # samples above N/2 must not matter: bit-identical result
        Z2 = Z.copy()
        Z2[N // 2 + 1:] = (r.standard_normal(N - N // 2 - 1) * 100 + 1j * r.standard_normal(N - N // 2 - 1)).astype(np.complex64)
        s2, ps2, ef2, _ = build(case, prof, Z2)
        s2.ef_do(ef2, "wake")
        W2 = s2.ef_get(ef2, "wake")
        if (gen.bits(W2) != gen.bits(W.astype(np.float32))).any():
            return Outcome(False, nontriv, cls + ["neghalf"], "wake potential depends on impedance samples above N/2 (N=%d)" % N, sig="c06:neghalf", metrics=met)
        cls.append("neghalf")
    elif var == "linear":
        prof2 = make_profiles(r, nb, n, "noise")
        a, bb = np.float32(r.uniform(-2, 2)), np.float32(r.uniform(-2, 2))
        s2, _, ef2, _ = build(case, prof2, Z)
        s2.ef_do(ef2, "wake")
        Wb = s2.ef_get(ef2, "wake").astype(np.float64)
        _, _, bound2, _ = reference(prof2, Z, case["buckets"], case["spacing"], N, sc)
        comb = (a * prof + bb * prof2).astype(np.float32)
        s3, _, ef3, _ = build(case, comb, Z)
        s3.ef_do(ef3, "wake")
        Wc = s3.ef_get(ef3, "wake").astype(np.float64)
        e = np.abs(Wc - (float(a) * W + float(bb) * Wb)).max()
        tl = 4 * TOL_FFT * (abs(a) * bound + abs(bb) * bound2) + 1e-30
        met["linear_err_over_tol"] = e / tl
        if e > tl:
            return Outcome(False, nontriv, cls + ["linear"], "wake not linear in the profiles: err %.3g tol %.3g" % (e, tl), sig="c06:linear", metrics=met)
        cls.append("linear")
    elif var == "shift" and n >= 12:
        # move a narrow profile by m cells inside its bucket: W moves by m cells (compare via the padded potential)
        m = int(r.integers(1, 4))
        pr = np.zeros((nb, n), np.float32)
        pr[:, 2:n - 2 - m] = prof[:, 2:n - 2 - m]
        pr2 = np.zeros_like(pr)
        pr2[:, m:] = pr[:, :n - m]
        s2, _, ef2, _ = build(case, pr, Z)
        s2.ef_do(ef2, "wake")
        p1 = s2.ef_get(ef2, "padded_wake").astype(np.float64)
        s3, _, ef3, _ = build(case, pr2, Z)
        s3.ef_do(ef3, "wake")
        p2 = s3.ef_get(ef3, "padded_wake").astype(np.float64)
        _, _, bnd, _ = reference(pr, Z, case["buckets"], case["spacing"], N, 1.0 * N)
        e = np.abs(np.roll(p1, m) - p2).max()
        tl = 2 * TOL_FFT * bnd + 1e-30
        met["shift_err_over_tol"] = e / tl
        if e > tl:
            return Outcome(False, nontriv, cls + ["shift"], "shifting the profiles by %d cells does not shift the wake by %d cells (err %.3g tol %.3g)" % (m, m, e, tl), sig="c06:shift", metrics=met)
        cls.append("shift")
    return Outcome(True, nontriv, cls, metrics=met)


@st.composite
def cases(draw):
    nb = draw(st.integers(1, 4))
    n, buckets, spacing, N, nbuckets = gen.field_layout(draw, nb, nmin=8, nmax=64, nlimit=1024, extra_buckets=3)

    def lg(lo, hi):
        return float(10 ** draw(st.floats(np.log10(lo), np.log10(hi))))
    return dict(n=n, buckets=buckets, spacing=spacing, N=N, nbuckets=nbuckets, dseed=draw(gen.seeds()),
                zkind=draw(st.sampled_from(["complex", "complex", "complex", "smooth", "real", "const", "zerotail", "sparse"])),
                pkind=draw(st.sampled_from(["smooth", "impulse", "noise"])),
                variant=draw(st.sampled_from(["none", "none", "neghalf", "linear", "shift"])),
                prelude=draw(st.lists(st.sampled_from([["csr", 0.0], ["csr", 1e10], ["wake"], ["pad"]]), max_size=3)),
                zadd=(draw(st.integers(1, 10000)) if draw(st.integers(0, 4)) == 0 else 0),
                intzero=draw(st.integers(0, 3)) == 0,
                Lq=draw(st.sampled_from([4.0, 6.0])), Lp=draw(st.sampled_from([4.0, 6.0, 9.0])),
                sigma_z=lg(1e-4, 1e-2), dE=lg(1e5, 1e6), frev=lg(1e5, 1e8), revpart=lg(1e-5, 1e-2),
                Ib=lg(1e-5, 1e-1), E0=lg(1e8, 1e10), sE=lg(1e-4, 1e-3), dt=lg(1e-12, 1e-9))


def subs(tier):
    return [Sub("conv", cases(), run_case, quick=15000, thorough=600000)]
