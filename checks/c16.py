"""C16 — impedance models are well-formed, passive, correctly scaled and causal (DESIGN.md §3 C16)."""
import os
import numpy as np
from hypothesis import strategies as st

from vlib import gen
from vlib.driver import Outcome, Sub
from vlib import shim as shimmod

LEVEL = "exploration"
RULE = ("generated: sample counts n in 2..600 (even, odd, small), f_max, f_rev, bending radius, gap of either sign, "
        "conductivity, susceptibility, collimator radius, all switch combinations of the factory incl. an impedance file of "
        "exactly n rows.  shape: every model; scaling: ratios |Z_4k|/|Z_k|, phases, parameter metamorphics, parallel plates "
        "vs free space above 30 k_c / below 0.3 k_c; causal: narrow Gaussian source through the real wake code; factory: "
        "bitwise equality with the sum of separately built models.  non-trivial = n >= 8 and a parameter away from its "
        "default; distinct = case hash")
ASSUMPTIONS = ["thresholds 0.1 (causality), 1e-2 / 1e-3 / 0.15 (parallel plates limits) only separate 'approaches' from 'does not'; "
               "calibrated on the unchanged tree: observed 0.018, 1.3e-4, 2.2e-4, 0.079"]
TOLERANCES = {"ratio_rel": 2e-6, "phase_abs": 2e-6, "collimator_rel": 3e-7, "causality_energy_ratio": 0.1,
              "pp_high_rel": 1e-2, "pp_low_re_ratio": 1e-3, "pp_low_abs_ratio": 0.15}
C = 2.99792458e8
Z0 = 376.730313461
MODELS = ["freespace", "parallelplates", "resistivewall", "collimator", "const"]


def S():
    return shimmod.get()


def lg(draw, lo, hi):
    return float(10 ** draw(st.floats(np.log10(lo), np.log10(hi))))


def model(s, case, kind=None, n=None, **over):
    p = dict(case)
    p.update(over)
    kind = kind or p["model"]
    n = n or p["n"]
    if kind == "freespace":
        return s.imp_model("freespace", n, p["fmax"], [p["frev"]])
    if kind == "parallelplates":
        return s.imp_model("parallelplates", n, p["fmax"], [p["f0"], abs(p["gap"])])
    if kind == "resistivewall":
        return s.imp_model("resistivewall", n, p["fmax"], [p["frev"], C / p["frev"], p["cond"], p["xi"], abs(p["gap"]) / 2])
    if kind == "collimator":
        return s.imp_model("collimator", n, p["fmax"], [abs(p["gap"]) / 2, p["coll"]])
    if kind == "const":
        return s.imp_model("const", n, p["fmax"], [p["cre"], p["cim"]])
    raise ValueError(kind)


def run_shape(case):
    s = S()
    s.reset(8, 1)
    n, kind = case["n"], case["model"]
    h = model(s, case)
    z = s.imp_data(h)
    cls = ["shape_" + kind, "even" if n % 2 == 0 else "odd", "small" if n < 8 else "big"]
    nontriv = n >= 8
    if s.imp_size(h) != n or s.imp_nfreqs(h) != n:
        return Outcome(False, nontriv, cls, "%s(n=%d) returns %d samples, nFreqs()=%d" % (kind, n, s.imp_size(h), s.imp_nfreqs(h)), sig="c16:shape:size:" + kind)
    if not np.isfinite(z.view(np.float32)).all():
        i = int(np.argwhere(~np.isfinite(z))[0][0])
        return Outcome(False, nontriv, cls, "%s(n=%d) sample %d not finite: %r (fmax=%g frev=%g gap=%g)" % (kind, n, i, z[i], case["fmax"], case["frev"], case["gap"]), sig="c16:shape:finite:" + kind)
    if (z[n // 2 + 1:] != 0).any():
        i = n // 2 + 1 + int(np.argwhere(z[n // 2 + 1:] != 0)[0][0])
        return Outcome(False, nontriv, cls, "%s(n=%d) sample %d above n/2 is %r, must be 0" % (kind, n, i, z[i]), sig="c16:shape:upper:" + kind)
    passive = kind != "const" or case["cre"] >= 0
    if passive and (z.real < 0).any():
        i = int(np.argwhere(z.real < 0)[0][0])
        return Outcome(False, nontriv, cls, "%s(n=%d) has negative real part %r at sample %d" % (kind, n, z.real[i], i), sig="c16:shape:passive:" + kind)
    return Outcome(True, nontriv, cls)


@st.composite
def base_params(draw, nmin=2, nmax=600):
    n = draw(st.one_of(st.integers(nmin, min(nmax, 16)), st.integers(nmin, nmax)))
    gap = lg(draw, 1e-3, 0.1) * draw(st.sampled_from([1.0, 1.0, -1.0]))
    frev = gen.f32(lg(draw, 1e5, 1e8))
    c = dict(n=n, gap=gap, frev=frev, fmax=gen.f32(lg(draw, 1e9, min(1e13, 1.2e11 / abs(gap)))),
             cond=lg(draw, 1e4, 1e8), xi=draw(st.sampled_from([0.0, 0.0, -0.9, -0.5, 1.0, 10.0])),
             coll=abs(gap) / 2 * draw(st.floats(0.05, 0.95)), cre=gen.f32(draw(st.floats(0, 100))), cim=gen.f32(draw(st.floats(-100, 100))))
    c["R"] = C / (2 * np.pi * frev) * draw(st.sampled_from([1.0, 1.0, 0.3, 3.0]))
    c["f0"] = gen.f32(C / (2 * np.pi * c["R"]))
    return c


@st.composite
def shape_cases(draw):
    c = draw(base_params())
    c["model"] = draw(st.sampled_from(MODELS))
    if c["model"] == "parallelplates":
        c["n"] = min(c["n"], 300)
    return c


# ------------------------------------------------------------------ scaling laws
def run_scaling(case):
    s = S()
    s.reset(8, 1)
    n, kind = case["n"], case["model"]
    h = model(s, case)
    z = s.imp_data(h).astype(np.complex128)
    cls = ["scal_" + kind]
    nontriv = True
    k = np.arange(1, n // 8 + 1)
    k = k[4 * k <= n // 2]
    met = {}
    if kind == "freespace":
        ratio = np.abs(z[4 * k]) / np.abs(z[k])
        e = np.abs(ratio / 4 ** (1 / 3) - 1).max()
        ph = np.abs(np.angle(z[1:n // 2 + 1]) - np.pi / 6).max()
        met.update(fs_ratio=e, fs_phase=ph)
        if e > 2e-6 or ph > 1e-3:
            return Outcome(False, nontriv, cls, "free-space CSR: |Z_4k|/|Z_k| deviates from 4^(1/3) by %.3g, phase from pi/6 by %.3g" % (e, ph), sig="c16:scaling:freespace", metrics=met)
        # linear in f_max^(1/3) / f_rev^(1/3): doubling f_rev scales by 2^(-1/3)
        z2 = s.imp_data(model(s, case, frev=gen.f32(case["frev"] * 2))).astype(np.complex128)
        e2 = np.abs(np.abs(z2[1:n // 2 + 1]) / np.abs(z[1:n // 2 + 1]) * 2 ** (1 / 3) - 1).max()
        met["fs_frev"] = e2
        if e2 > 5e-6:
            return Outcome(False, nontriv, cls, "free-space CSR does not scale with (f/f_rev)^(1/3): %.3g" % e2, sig="c16:scaling:freespace:frev", metrics=met)
    elif kind == "resistivewall":
        ratio = np.abs(z[4 * k]) / np.abs(z[k])
        e = np.abs(ratio / 2 - 1).max()
        ph = np.abs(np.angle(z[1:n // 2 + 1]) + np.pi / 4).max()
        met.update(rw_ratio=e, rw_phase=ph)
        if e > 2e-6 or ph > 2e-6:
            return Outcome(False, nontriv, cls, "resistive wall: |Z_4k|/|Z_k| deviates from 2 by %.3g, phase from -pi/4 by %.3g" % (e, ph), sig="c16:scaling:wall", metrics=met)
        # |Z| ~ sqrt(mu_r/sigma)/b
        z2 = s.imp_data(model(s, case, cond=case["cond"] * 4)).astype(np.complex128)
        z3 = s.imp_data(model(s, case, gap=case["gap"] * 2)).astype(np.complex128)
        z4 = s.imp_data(model(s, case, xi=(1 + case["xi"]) * 4 - 1)).astype(np.complex128)
        a = np.abs(z[1:n // 2 + 1])
        e2 = max(np.abs(np.abs(z2[1:n // 2 + 1]) / a * 2 - 1).max(), np.abs(np.abs(z3[1:n // 2 + 1]) / a * 2 - 1).max(),
                 np.abs(np.abs(z4[1:n // 2 + 1]) / a / 2 - 1).max())
        met["rw_params"] = e2
        if e2 > 5e-6:
            return Outcome(False, nontriv, cls, "resistive wall does not scale as sqrt(mu_r/sigma)/b: %.3g" % e2, sig="c16:scaling:wall:params", metrics=met)
    elif kind == "collimator":
        want = Z0 / np.pi * np.log(abs(case["gap"]) / 2 / case["coll"])
        body = z[:n // 2]
        e = np.abs(body.real / want - 1).max()
        met["coll_rel"] = e
        if e > 3e-7 or (body.imag != 0).any() or not (body.real > 0).all() or np.ptp(body.real) != 0:
            return Outcome(False, nontriv, cls, "collimator impedance %r, expected the positive constant %r" % (body[:3].tolist(), want), sig="c16:scaling:collimator", metrics=met)
        z2 = s.imp_data(model(s, case, coll=case["coll"] * 0.5)).astype(np.complex128)
        if not (z2[:n // 2].real > body.real).all():
            return Outcome(False, nontriv, cls, "collimator impedance not monotone in outer/inner", sig="c16:scaling:collimator:monotone", metrics=met)
    elif kind == "parallelplates":
        g = abs(case["gap"])
        R = C / (2 * np.pi * case["f0"])
        kc = np.sqrt(2 / 3) * (np.pi * R / g) ** 1.5
        zf = s.imp_data(s.imp_model("freespace", n, case["fmax"], [case["f0"]])).astype(np.complex128)
        idx = np.arange(n)
        harm = idx * (case["fmax"] / case["f0"] / (n - 1.0))
        body = (idx >= 1) & (idx <= n // 2)
        hi = body & (harm >= 30 * kc)
        lo = body & (harm <= 0.3 * kc)
        if hi.any():
            e = np.abs(z[hi] / zf[hi] - 1).max()
            met["pp_high"] = e
            cls.append("pp_high")
            if e > 1e-2:
                return Outcome(False, nontriv, cls, "parallel plates does not approach free space above 30 k_c: |Zpp/Zfs-1| = %.3g (gap %g, k_c %.4g)" % (e, g, kc), sig="c16:scaling:pp:high", metrics=met)
        if lo.any():
            er = (z.real[lo] / zf.real[lo]).max()
            ea = (np.abs(z[lo]) / np.abs(zf[lo])).max()
            met["pp_low_re"] = er
            met["pp_low_abs"] = ea
            cls.append("pp_low")
            if er > 1e-3 or ea > 0.15:
                return Outcome(False, nontriv, cls, "parallel plates not suppressed below 0.3 k_c: Re ratio %.3g, |Z| ratio %.3g (gap %g, k_c %.4g)" % (er, ea, g, kc), sig="c16:scaling:pp:low", metrics=met)
        if not hi.any() and not lo.any():
            nontriv = False
    return Outcome(True, nontriv, cls, metrics=met)


@st.composite
def scaling_cases(draw):
    c = draw(base_params(nmin=16, nmax=400))
    c["model"] = draw(st.sampled_from(["freespace", "resistivewall", "collimator", "parallelplates", "parallelplates"]))
    if c["model"] == "parallelplates" and draw(st.integers(0, 39)) == 0:
        # "tends to free space for wide gaps and high frequencies", far out: metres of gap at THz frequencies (tens of
        # thousands of plate modes are summed there - round-9 seed C16i lets the mode number squared wrap at 2^32); few
        # samples, the sum costs seconds
        c["n"] = 16
        c["gap"] = float(draw(st.sampled_from([3.0, 10.0, 30.0])))
        c["f0"] = gen.f32(draw(st.sampled_from([9e6, 4.8e7])))
        c["fmax"] = gen.f32(draw(st.sampled_from([1e13, 3e13])))
        return c
    if c["model"] == "parallelplates":
        c["n"] = min(c["n"], 200)
        # aim the sampled band at one of the two asymptotic regimes (construction instead of rejection)
        g = abs(c["gap"])
        R = C / (2 * np.pi * c["f0"])
        kc = np.sqrt(2 / 3) * (np.pi * R / g) ** 1.5
        if draw(st.booleans()):
            c["fmax"] = gen.f32(min(1.2e11 / g, max(1e9, 2 * 100 * kc * c["f0"])))      # reaches beyond 30 k_c
        else:
            c["fmax"] = gen.f32(max(1e6, 2 * 0.25 * kc * c["f0"]))                      # stays below 0.3 k_c
    return c


# ------------------------------------------------------------------ causality through the real wake code
def run_causal(case):
    s = S()
    n, N, kind = 64, case["N"], case["model"]
    s.reset(n, 1)
    ps = s.ps_new(-6, 6, -6, 6, qscale=1e-3, pscale=6e5)
    x = np.arange(n)
    c0 = case["c0"]
    s.ps_set_projection(ps, 0, 0, np.exp(-0.5 * ((x - c0) / 2.0) ** 2).astype(np.float32))
    imp = model(s, case, n=N)
    ef = s.ef_wake(ps, imp, [0], 0, case["frev"], 1e-3, 1e-3, 1.3e9, 4.7e-4, 1e-10)
    s.ef_do(ef, "wake")
    w = s.ef_get(ef, "padded_wake").astype(np.float64)
    d = (np.arange(N) - c0) % N
    ahead = (d >= 6) & (d <= N // 2 - 6)
    behind = (d >= N // 2 + 6) & (d <= N - 6)
    Ea, Eb = (w[ahead] ** 2).sum(), (w[behind] ** 2).sum()
    cls = ["causal_" + kind, gen.nclass(N)]
    if kind == "freespace":
        ratio = Eb / Ea if Ea > 0 else np.inf
        side = "ahead"
    else:
        ratio = Ea / Eb if Eb > 0 else np.inf
        side = "behind"
    met = {"causal_ratio_" + kind: ratio}
    if not ratio <= 0.1:
        return Outcome(False, True, cls, "%s wake is not confined to the side %s of the source: wrong-side/right-side energy = %.3g (N=%d)" % (kind, side, ratio, N),
                       sig="c16:causal:" + kind, metrics=met)
    return Outcome(True, True, cls, metrics=met)


@st.composite
def causal_cases(draw):
    c = draw(base_params())
    c["model"] = draw(st.sampled_from(["freespace", "resistivewall"]))
    c["N"] = draw(st.sampled_from([256, 257, 300, 384, 389, 450, 512, 640, 700, 768, 1024]))
    c["c0"] = draw(st.integers(12, 52))
    return c


# ------------------------------------------------------------------ factory
def run_factory(case):
    s = S()
    s.reset(8, 1)
    n = case["n"]
    sw = case["sw"]
    gap = case["gap"] if sw["gap"] else 0.0
    cond = case["cond"] if sw["wall"] else 0.0
    coll = case["coll"] if sw["coll"] else 0.0
    fname = ""
    zfile = None
    if sw["file"]:
        r = gen.rng(case["dseed"])
        zfile = (r.standard_normal(n) + 1j * r.standard_normal(n)).astype(np.complex64)
        fname = os.path.join(os.environ.get("VERIF_SCRATCH", "."), "imp_%d.dat" % case["dseed"])
        with open(fname, "w") as f:
            for i, v in enumerate(zfile):
                f.write("%d %.9g %.9g\n" % (i, v.real, v.imag))
    h = s.imp_make(n, case["fmax"], case["R"], case["frev"], gap, sw["csr"], cond, case["xi"], coll, fname)
    parts = []
    if gap != 0:
        f0 = C / (2 * np.pi * case["R"])
        if sw["csr"]:
            if gap > 0:
                parts.append(s.imp_data(s.imp_model("parallelplates", n, case["fmax"], [gen.f32(f0), gap])))
            else:
                parts.append(s.imp_data(s.imp_model("freespace", n, case["fmax"], [gen.f32(f0)])))
        if cond > 0 and case["xi"] >= -1:
            parts.append(s.imp_data(s.imp_model("resistivewall", n, case["fmax"], [case["frev"], C / case["frev"], cond, case["xi"], abs(gap / 2)])))
        if 0 < coll < abs(gap / 2):
            parts.append(s.imp_data(s.imp_model("collimator", n, case["fmax"], [abs(gap / 2), coll])))
    if zfile is not None:
        parts.append(s.imp_data(s.imp_file(fname, case["fmax"])))
        os.remove(fname)
    cls = ["factory", "sw%d%d%d%d%d" % (sw["gap"], sw["csr"], sw["wall"], sw["coll"], sw["file"])]
    nontriv = n >= 8
    if not parts:
        if h != 0:
            return Outcome(False, nontriv, cls, "factory returned an impedance although nothing is selected (switches %s)" % sw, sig="c16:factory:notnull")
        return Outcome(True, nontriv, cls + ["null"])
    if h == 0:
        return Outcome(False, nontriv, cls, "factory returned nothing although %d contributions are selected (switches %s)" % (len(parts), sw), sig="c16:factory:null")
    z = s.imp_data(h)
    if s.imp_nfreqs(h) != n or len(z) != n:
        return Outcome(False, nontriv, cls, "factory result has %d samples, requested %d" % (len(z), n), sig="c16:factory:size")
    acc = np.zeros(n, np.complex64)
    for p in parts:
        acc = (acc + p).astype(np.complex64)
    if (gen.bits(acc.view(np.float32)) != gen.bits(z.view(np.float32))).any():
        i = int(np.argwhere(acc != z)[0][0]) if (acc != z).any() else -1
        return Outcome(False, nontriv, cls, "factory result differs from the sum of the %d selected contributions at sample %d: %r vs %r (switches %s)" %
                       (len(parts), i, z[i], acc[i], sw), sig="c16:factory:sum")
    return Outcome(True, nontriv, cls)


@st.composite
def factory_cases(draw):
    c = draw(base_params(nmin=2, nmax=200))
    c["sw"] = dict(gap=draw(st.booleans()) or draw(st.booleans()), csr=draw(st.booleans()), wall=draw(st.booleans()),
                   coll=draw(st.booleans()), file=draw(st.booleans()))
    c["dseed"] = draw(gen.seeds())
    if draw(st.integers(0, 9)) == 0:
        c["coll"] = abs(c["gap"]) * 2          # collimator wider than the pipe: must not contribute
    if draw(st.integers(0, 9)) == 0:
        c["xi"] = -2.0                          # below -1: resistive wall must not contribute
    return c


def subs(tier):
    return [Sub("shape", shape_cases(), run_shape, quick=5000, thorough=200000),
            Sub("scaling", scaling_cases(), run_scaling, quick=4000, thorough=150000),
            Sub("causal", causal_cases(), run_causal, quick=2000, thorough=60000),
            Sub("factory", factory_cases(), run_factory, quick=4000, thorough=150000)]
