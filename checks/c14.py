"""C14 — Ctrl+C at any moment leaves a complete, consistent results file (DESIGN.md §3 C14).

SIGINT is raised by the guarded hook VERIF_IP at a chosen interrupt point (statement boundary of main()'s set-up, loop,
output block, final block and of the HDF5 append sequence), so the real installed handler runs exactly there."""
import os
import numpy as np
from hypothesis import strategies as st

from vlib import gen, cli, cfggen
from vlib.driver import Outcome, Sub

LEVEL = "fault_enumeration"
RULE = ("generated short runs (3-25 steps, outstep 0..3, SavePhaseSpace 0..2, with/without wake, 1-2 bunches, with/without "
        "tracking) x interrupt schedule of 1-3 interrupt-point indices (uniform / first ten / last ten / inside output "
        "blocks); three reference executions per case: U (same options, uninterrupted), R (every step recorded), and, for "
        "multi-signal schedules, the run with only the first signal.  Thorough tier: for 6 fixed configurations EVERY "
        "interrupt point of the run is enumerated, plus truly asynchronous kill -INT deliveries.  non-trivial = the signal "
        "fires after 'Starting the simulation', before the last step, with at least one output record before it")
ASSUMPTIONS = ["delivery at statement boundaries (hook) is enumerated; delivery inside a library call is sampled only (async sub-check)",
               "noise generators seeded through the guarded hook so that tracked particles are comparable"]
TOLERANCES = {"all comparisons": "bitwise"}
PER_T = ["/BunchPopulation/data", "/BunchProfile/data", "/BunchLength/data", "/BunchPosition/data", "/EnergyProfile/data",
         "/EnergySpread/data", "/EnergyAverage/data", "/Particles/data", "/CSR/Spectrum/data", "/CSR/Intensity/data",
         "/WakePotential/data"]
ENV = {"INOVESA_VERIF_PRNG_SEED": "12345"}


def run(o, wd, name, track, env=None):
    oo = dict(o)
    # "_inherit_ign": the run is started the way a job script starts a background job - with SIGINT inherited as ignored.
    # The program installs its handler regardless, so Ctrl+C / kill -INT must still end it cleanly (round-8 seed C14h)
    ign = bool(oo.pop("_inherit_ign", False))
    if track:
        oo["tracking"] = "track.txt"
    e = dict(ENV)
    if env:
        e.update(env)
    return cli.run(["-c", "/dev/null", "-o", name] + cli.optargs(oo), wd, env=e, sigint_ignored=ign)


def read_labels(path):
    out = []
    if os.path.exists(path):
        for l in open(path):
            p = l.split()
            if len(p) == 2:
                out.append(p[1])
    return out


def steps_of(t, steps):
    return np.rint(np.asarray(t, np.float64) * steps).astype(int)


def check_interrupted(o, d, wd, track, idxs, U, Ulabels, R, tag):
    """run with SIGINT at idxs; returns (ok, msg, sig, nontrivial, classes)"""
    name = "i_%s.h5" % tag
    for f in (name, name + ".log", name + ".cfg", "ip_%s.log" % tag):
        if os.path.exists(os.path.join(wd, f)):
            os.remove(os.path.join(wd, f))
    r = run(o, wd, name, track, env={"INOVESA_VERIF_SIGINT_AT": ",".join(str(i) for i in idxs),
                                      "INOVESA_VERIF_IP_LOG": "ip_%s.log" % tag})
    first = idxs[0]
    label = Ulabels[first] if first < len(Ulabels) else "beyond"
    where = "interrupt point %d (%s)" % (first, label)
    labs = read_labels(os.path.join(wd, "ip_%s.log" % tag))
    steps = d["steps"]
    outstep = o["outstep"]
    cls = [label.split(":")[0]]
    started = "start:after_message" in labs[:first + 1] if labs else False
    if r.rc != 0:
        return False, "%s: exit status %s (signal %s) %s" % (where, r.rc, r.signal, r.err[-300:]), "c14:status", True, cls
    lines = [l for l in r.out.replace("\r", "\n").splitlines() if l.strip()]
    last = lines[-1] if lines else ""
    in_final = label.startswith("final:")
    if not (last.endswith("Aborted.") or (in_final and last.endswith("Finished."))):
        return False, "%s: last message is %r, expected 'Aborted.'" % (where, last[-80:]), "c14:message", True, cls
    if label == "final:before_return" and not last.endswith("Finished."):
        pass
    h = cli.H5(os.path.join(wd, name))
    if not h.ok:
        return False, "%s: results file not readable: %s" % (where, h.err[-200:]), "c14:unreadable", True, cls
    # step reached: number of loop heads passed up to and including the signal point
    kprime = sum(1 for l in labs[:first + 1] if l == "loop:head")
    if kprime > d["laststep"]:
        kprime = d["laststep"]
    t = steps_of(h["/Info/AxisValues_t"], steps)
    exp = ([s for s in range(0, kprime, outstep)] if outstep > 0 else []) + [kprime]
    nontriv = bool(started and kprime < d["laststep"] and len(exp) >= 2)
    if t.tolist() != exp:
        return False, "%s: time axis holds steps %s, expected %s (step in progress finished, then one final record)" % (where, t.tolist(), exp), "c14:timeaxis", nontriv, cls
    Nt = len(t)
    for ds in PER_T:
        if ds in h.ds and h.shape[ds][0] != Nt and not (ds == "/WakePotential/data" and h.shape[ds][0] == 0):
            return False, "%s: %s has %d records, time axis %d" % (where, ds, h.shape[ds][0], Nt), "c14:count:%s" % ds, nontriv, cls
    if h.shape["/PhaseSpace/data"][0] != len(h["/PhaseSpace/axis0"]):
        return False, "%s: /PhaseSpace/data has %d records, its time axis %d" % (where, h.shape["/PhaseSpace/data"][0], len(h["/PhaseSpace/axis0"])), "c14:count:ps", nontriv, cls
    # every record except the last equals the corresponding record of the uninterrupted run
    for ds in PER_T + ["/Info/AxisValues_t"]:
        if ds not in h.ds or ds not in U.ds or h[ds].shape[0] == 0:
            continue
        a, b = h[ds][:Nt - 1], U[ds][:Nt - 1]
        if a.shape != b.shape or (a.view(np.uint8) != b.view(np.uint8)).any():
            return False, "%s: %s differs from the uninterrupted run in a record before the final one" % (where, ds), "c14:prefix:%s" % ds, nontriv, cls
    nps = len(h["/PhaseSpace/axis0"])
    a, b = h["/PhaseSpace/data"][:nps - 1], U["/PhaseSpace/data"][:nps - 1]
    if a.shape != b.shape or (gen.bits(a) != gen.bits(b)).any():
        return False, "%s: a stored phase space before the final one differs from the uninterrupted run" % where, "c14:prefix:ps", nontriv, cls
    # the final record is the state reached after kprime steps (record kprime of the every-step reference run)
    tR = steps_of(R["/Info/AxisValues_t"], steps)
    ir = int(np.argwhere(tR == kprime)[0][0])
    for ds in PER_T:
        if ds not in h.ds or h[ds].shape[0] == 0:
            continue
        if (h[ds][-1].view(np.uint8) != R[ds][ir].view(np.uint8)).any():
            return False, "%s: final record of %s is not the state after %d steps" % (where, ds, kprime), "c14:final:%s" % ds, nontriv, cls
    tRp = steps_of(R["/PhaseSpace/axis0"], steps)
    irp = int(np.argwhere(tRp == kprime)[0][0])
    if (gen.bits(h["/PhaseSpace/data"][-1]) != gen.bits(R["/PhaseSpace/data"][irp])).any():
        return False, "%s: final phase space is not the state after %d steps (half-applied step?)" % (where, kprime), "c14:final:ps", nontriv, cls
    if steps_of(h["/PhaseSpace/axis0"], steps)[-1] != kprime:
        return False, "%s: final phase-space time is step %d, expected %d" % (where, steps_of(h["/PhaseSpace/axis0"], steps)[-1], kprime), "c14:final:pstime", nontriv, cls
    for ds in ("/BunchProfile/padded", "/WakePotential/padded"):
        if ds in h.ds and h.shape[ds][0] not in (0, 2) and "/WakePotential/data" in h.ds and h.shape["/WakePotential/data"][0]:
            return False, "%s: %s has %d records (initial + final expected)" % (where, ds, h.shape[ds][0]), "c14:padded", nontriv, cls
    return True, "", "", nontriv, cls + ["k%d" % min(kprime, 3)], h


def prepare(case, wd):
    o = dict(case["opts"])
    track = case.get("track") or []
    if track:
        with open(os.path.join(wd, "track.txt"), "w") as f:
            for q, p in track:
                f.write("%r %r\n" % (q, p))
    d = cfggen.derive(o)
    if case.get("startleg"):
        # the run under test starts from a phase-space record of an earlier results file: the set-up then also reads a file
        leg = dict(o, rotations=float(np.float32((case["startleg"] - 0.5) / d["steps"])), outstep=0, SavePhaseSpace=0)
        r0 = run(leg, wd, "s.h5", [])
        if r0.rc != 0 or "Finished." not in r0.out:
            return None, "first leg failed: %s %s" % (r0.out[-300:], r0.err[-300:])
        o["InitialDistFile"] = "s.h5"
    warm = run(dict(o, outstep=0), wd, "warm.h5", track)
    rU = run(o, wd, "u.h5", track, env={"INOVESA_VERIF_IP_LOG": "ip_u.log"})
    rR = run(dict(o, outstep=1, SavePhaseSpace=1), wd, "r.h5", track)
    if rU.rc != 0 or rR.rc != 0 or "Finished." not in rU.out:
        return None, "reference run failed: %s %s" % (rU.out[-300:], rU.err[-300:])
    U, R = cli.H5(os.path.join(wd, "u.h5")), cli.H5(os.path.join(wd, "r.h5"))
    labels = read_labels(os.path.join(wd, "ip_u.log"))
    return (o, d, track, U, R, labels), ""


def pick_index(mode, frac, labels):
    L = len(labels)
    if mode == "uniform":
        cand = list(range(L))
    elif mode == "first":
        cand = list(range(min(10, L)))
    elif mode == "last":
        cand = list(range(max(0, L - 10), L))
    elif mode == "out":
        cand = [i for i, l in enumerate(labels) if l.startswith("out:") or l.startswith("h5:")] or list(range(L))
    elif mode == "h5":
        # inside the appends of one record (between two datasets, and inside every single append)
        cand = [i for i, l in enumerate(labels) if l.startswith("h5:")] or list(range(L))
    elif mode == "loop":
        cand = [i for i, l in enumerate(labels) if l.startswith("loop:")] or list(range(L))
    else:
        cand = [i for i, l in enumerate(labels) if l.startswith("final:")] or list(range(L))
    return cand[min(len(cand) - 1, int(frac * len(cand)))]


def run_case(case):
    wd = cli.scratch("c14")
    prep, msg = prepare(case, wd)
    if prep is None:
        return Outcome(False, True, ["runfail"], msg, sig="c14:runfail")
    o, d, track, U, R, labels = prep
    if case.get("all"):
        part, nparts = case["part"], case["nparts"]
        nt = 0
        for idx in range(part, len(labels), nparts):
            res = check_interrupted(o, d, wd, track, [idx], U, labels, R, "e")
            if not res[0]:
                return Outcome(False, res[3], res[4], res[1], sig=res[2])
            nt += int(res[3])
        return Outcome(True, nt > 0, ["exhaustive"], metrics={"points_enumerated": len(range(part, len(labels), nparts)), "points_total": len(labels)})
    idxs = [pick_index(m, f, labels) for m, f in case["schedule"]]
    idxs = [idxs[0]] + sorted(i for i in idxs[1:] if i > idxs[0])
    res = check_interrupted(o, d, wd, track, idxs, U, labels, R, "m")
    if not res[0]:
        return Outcome(False, res[3], res[4], res[1], sig=res[2])
    cls = res[4] + ["nsig%d" % len(idxs)]
    if len(idxs) > 1:
        res1 = check_interrupted(o, d, wd, track, idxs[:1], U, labels, R, "s")
        if not res1[0]:
            return Outcome(False, res1[3], res1[4], res1[1], sig=res1[2])
        hm, hs = res[5], res1[5]
        for ds in hm.ds:
            if ds == "/Info/Inovesa_build":
                continue
            if hm[ds].shape != hs[ds].shape or (hm[ds].view(np.uint8) != hs[ds].view(np.uint8)).any():
                return Outcome(False, res[3], cls, "repeated signals (points %s) change %s relative to the run with only the first signal" % (idxs, ds), sig="c14:repeat:%s" % ds)
    return Outcome(True, res[3], cls)


@st.composite
def small_config(draw):
    o = draw(cfggen.base_config(nmin=16, nmax=32, min_laststep=6, max_laststep=25, wake=("none", "collimator", "wall", "csr"), machine=4, via_rev=6))
    if len(o["BunchCurrent"]) > 2:
        o["BunchCurrent"] = o["BunchCurrent"][:2] if sum(1 for x in o["BunchCurrent"][:2] if x > 0) else [1e-3, 1e-3]
        o["alpha0"] = gen.f32(cfggen.alpha0_for_spacing(1.5, o))
    o["outstep"] = draw(st.sampled_from([0, 1, 1, 1, 1, 2, 2, 2, 3]))
    o["SavePhaseSpace"] = draw(st.sampled_from([0, 1, 2]))
    o["FPTrack"] = draw(st.sampled_from([0, 1, 2, 3]))
    return o


@st.composite
def cases(draw):
    o = draw(small_config())
    track = [[draw(st.floats(-4, 4)), draw(st.floats(-4, 4))] for _ in range(draw(st.sampled_from([0, 0, 2])))]
    nsig = draw(st.sampled_from([1, 1, 1, 2, 3]))
    sched = [(draw(st.sampled_from(["uniform"] + ["loop"] * 8 + ["out"] * 6 + ["h5"] * 6 + ["first", "last", "final"])), draw(st.floats(0, 0.999)))
             for _ in range(nsig)]
    c = dict(opts=o, track=track, schedule=sched)
    if draw(st.integers(0, 3)) == 0:
        o["_inherit_ign"] = True
    if len(o["BunchCurrent"]) == 1 and draw(st.integers(0, 4)) == 0:
        c["startleg"] = draw(st.integers(1, 8))
    return c


FIXED = [
    dict(GridSize=16, StepsPerTs=20, rotations=0.275, outstep=2, SavePhaseSpace=1, VacuumGap=0.0, BunchCurrent=[1e-3]),
    dict(GridSize=16, StepsPerTs=20, rotations=0.225, outstep=1, SavePhaseSpace=0, VacuumGap=0.03, UseCSR=False, CollimatorRadius=0.005,
         BunchCurrent=[1e-3], RenormalizeCharge=2),
    dict(GridSize=20, StepsPerTs=30, rotations=0.25, outstep=3, SavePhaseSpace=2, VacuumGap=-1.0, BunchCurrent=[2e-3], FPTrack=1),
    dict(GridSize=16, StepsPerTs=20, rotations=0.175, outstep=0, SavePhaseSpace=0, VacuumGap=0.0, BunchCurrent=[1e-3]),
    dict(GridSize=16, StepsPerTs=25, rotations=0.22, outstep=2, SavePhaseSpace=1, VacuumGap=0.03, UseCSR=False, WallConductivity=1e6,
         BunchCurrent=[1e-3, 2e-3], RoundPadding=True, alpha0=None, RenormalizeCharge=3),
    dict(GridSize=16, StepsPerTs=20, rotations=0.2, outstep=1, SavePhaseSpace=1, VacuumGap=0.0, BunchCurrent=[1e-3], LinearRF=False,
         RFPhaseModAmplitude=1.0, RFPhaseModFrequency=40000.0),
]


def all_enum(tier):
    if tier != "thorough":
        return None
    out = []
    for o in FIXED:
        o = dict(o)
        if o.get("alpha0", 0) is None:
            o["alpha0"] = gen.f32(cfggen.alpha0_for_spacing(1.5, {k: v for k, v in o.items() if k != "alpha0"}))
        nparts = 16
        track = [[0.5, -0.5], [3.0, 3.0]] if o.get("FPTrack") == 1 else []
        for part in range(nparts):
            out.append(dict(opts=o, track=track, all=True, part=part, nparts=nparts))
    return out


# ------------------------------------------------------------------ truly asynchronous delivery (hook unused)
def run_async(case):
    import subprocess, signal, time
    wd = cli.scratch("c14a")
    prep, msg = prepare(case, wd)
    if prep is None:
        return Outcome(False, True, ["runfail"], msg, sig="c14:runfail")
    o, d, track, U, R, labels = prep
    exe = os.environ["VERIF_REL"]
    oo = dict(o)
    ign = bool(oo.pop("_inherit_ign", False))
    if track:
        oo["tracking"] = "track.txt"
    env = dict(os.environ, **ENV)
    p = subprocess.Popen([exe, "-c", "/dev/null", "-o", "a.h5"] + cli.optargs(oo), cwd=wd, env=env, stdout=subprocess.PIPE, stderr=subprocess.PIPE,
                         preexec_fn=cli._ignore_sigint if ign else None)
    # "after start-up": the handler is installed before the program prints its first line
    first_line = p.stdout.readline()
    time.sleep(case["delay"])
    try:
        p.send_signal(signal.SIGINT)
        if case["second"]:
            time.sleep(case["second"])
            p.send_signal(signal.SIGINT)
    except ProcessLookupError:
        pass
    out, err = p.communicate(timeout=120)
    out = first_line.decode(errors="replace") + out.decode(errors="replace")
    if p.returncode != 0:
        return Outcome(False, True, ["async"], "asynchronous SIGINT after %.4fs: exit status %s %s" % (case["delay"], p.returncode, err[-200:]), sig="c14:async:status")
    h = cli.H5(os.path.join(wd, "a.h5"))
    if not os.path.exists(os.path.join(wd, "a.h5")):
        return Outcome(True, False, ["async", "before_file"])
    if not h.ok:
        return Outcome(False, True, ["async"], "asynchronous SIGINT after %.4fs: results file unreadable (%s)" % (case["delay"], h.err[-200:]), sig="c14:async:unreadable")
    steps = d["steps"]
    t = steps_of(h["/Info/AxisValues_t"], steps)
    Nt = len(t)
    aborted = "Aborted." in out
    for ds in PER_T:
        if ds in h.ds and h.shape[ds][0] not in (Nt,) and not (ds == "/WakePotential/data" and h.shape[ds][0] == 0):
            return Outcome(False, True, ["async"], "asynchronous SIGINT: %s has %d records, time axis %d" % (ds, h.shape[ds][0], Nt), sig="c14:async:count")
    kp = int(t[-1]) if Nt else -1
    exp = ([s for s in range(0, kp, o["outstep"])] if o["outstep"] > 0 else []) + [kp]
    if t.tolist() != exp:
        return Outcome(False, True, ["async"], "asynchronous SIGINT: time axis %s is not (output steps before k) + [k]" % t.tolist(), sig="c14:async:timeaxis")
    tR = steps_of(R["/PhaseSpace/axis0"], steps)
    ir = np.argwhere(tR == kp)
    if len(ir) == 0 or (gen.bits(h["/PhaseSpace/data"][-1]) != gen.bits(R["/PhaseSpace/data"][int(ir[0][0])])).any():
        return Outcome(False, True, ["async"], "asynchronous SIGINT: final phase space (step %d) is not a state of the uninterrupted run" % kp, sig="c14:async:final")
    for ds in PER_T:
        if ds in h.ds and ds in U.ds and h[ds].shape[0]:
            a, b = h[ds][:Nt - 1], U[ds][:Nt - 1]
            if a.shape != b.shape or (a.view(np.uint8) != b.view(np.uint8)).any():
                return Outcome(False, True, ["async"], "asynchronous SIGINT: %s differs from the uninterrupted run before the final record" % ds, sig="c14:async:prefix")
    return Outcome(True, bool(aborted and 0 < kp < d["laststep"]), ["async", "aborted" if aborted else "finished"])


@st.composite
def async_cases(draw):
    o = draw(small_config())
    o["GridSize"] = draw(st.sampled_from([48, 64]))
    o["StepsPerTs"] = 400
    o["rotations"] = float(np.float32(draw(st.integers(3000, 8000)) / 400 - 0.001))
    o["outstep"] = draw(st.sampled_from([1, 5, 50]))
    o["SavePhaseSpace"] = draw(st.sampled_from([0, 10]))
    if len(o["BunchCurrent"]) > 1:
        o["BunchCurrent"] = [1e-3]
        o.pop("alpha0", None)
    o.pop("padding", None)
    o.pop("RoundPadding", None)
    if draw(st.integers(0, 3)) == 0:
        o["_inherit_ign"] = True
    return dict(opts=o, track=[], delay=draw(st.floats(0.0, 0.6)), second=draw(st.sampled_from([0, 0, 0.002, 0.02])))


def subs(tier):
    out = [Sub("hooked", cases(), run_case, quick=192, thorough=2400, needs=("rel", "h5x"), shrink_budget=30),
           Sub("async", async_cases(), run_async, quick=32, thorough=600, needs=("rel", "h5x"), shrink_budget=5)]
    if tier == "thorough":
        out.append(Sub("enumerated", st.just({}), run_case, quick=1, thorough=1, needs=("rel", "h5x"), enum=all_enum))
    return out


def finalize(cov, agg, tier):
    if tier == "thorough" and "enumerated" in agg:
        cov["exhaustive_subspaces"] = ["every interrupt point (statement boundary) of 6 fixed short runs, single signal"]
