"""C13 — the configuration file saved next to the results reproduces the run (DESIGN.md §3 C13)."""
import os
import numpy as np
from hypothesis import strategies as st

from vlib import gen, opts as O
from vlib.driver import Outcome, Sub
from vlib import shim as shimmod

LEVEL = "exploration"
RULE = ("roundtrip: for a generated subset of ALL registered options a source in {command line, parent config file, both} and a "
        "legal value (floats/doubles arbitrary representable values, 1-5 bunch currents incl. zeros, alpha0 vs synchrotron "
        "frequency in all presence combinations, legacy aliases in the parent file); A.parse(argv); A.save(cfg); "
        "B.parse(--config=cfg); every getter of A must equal the getter of B, and the same again for the .cfg that B saves (second "
        "generation).  non-trivial = >= 3 options non-default and one of "
        "{>= 2 bunch currents, f_s != 0, option only in the parent file, float needing > 6 digits}.  cli: the real program's "
        ".cfg fed back reproduces the final phase space bit for bit")
ASSUMPTIONS = ["run_anyway is deliberately not written to the .cfg (it cannot influence results once 'output' is in the file) and is not compared",
               "alpha0 is not compared when a synchrotron frequency is given: the frequency then overrides it (documented)",
               "file names without spaces or '#' (boost's config-file grammar cannot carry them)"]
TOLERANCES = {"getters": "bitwise (hex-float text)", "cli_final_phase_space": "bitwise"}
EXCLUDE = {"ForceRun", "HaissinskiIterations"}


def S():
    return shimmod.get()


def parse(args):
    s = S()
    h, run = s.opts_parse(args)
    g = O.decode_getters(s.opts_json(h))
    return h, run, g


def run_roundtrip(case):
    s = S()
    d = os.environ.get("VERIF_SCRATCH", ".")
    os.chdir(d)
    for f in ("parent.cfg", "saved.cfg", "saved2.cfg", "default.cfg"):
        if os.path.exists(f):
            os.remove(f)
    args = O.cli_args(case["cli"])
    if case["file"]:
        with open("parent.cfg", "w") as f:
            f.write(O.cfg_text(case["file"]))
        args = ["--config=parent.cfg"] + args
    else:
        args = ["--config=/dev/null"] + args
    try:
        hA, runA, gA = parse(args)
    except shimmod.ShimError as e:
        return Outcome(True, False, ["rejected"], discard=True, msg=str(e))
    # where the .cfg is written is up to the caller; rerunning "in place" from a saved .cfg with overrides on the command
    # line writes it over the very file the options were read from (round-5 seed C13e skips exactly that write)
    saved = "parent.cfg" if (case.get("over_parent") and case["file"]) else "saved.cfg"
    s.opts_save(hA, saved)
    if saved != "saved.cfg":
        import shutil
        shutil.copy(saved, "saved.cfg")
    try:
        hB, runB, gB = parse(["--config=saved.cfg"])
    except shimmod.ShimError as e:
        txt = open("saved.cfg").read()
        return Outcome(False, True, ["reload_fails"], "saved configuration cannot be parsed back: %s\n%s" % (e, txt[:600]), sig="c13:reload")
    # second generation: B (= inovesa --config saved.cfg) is itself an invocation; the .cfg it writes must reproduce it too
    s.opts_save(hB, "saved2.cfg")
    try:
        hC, runC, gC = parse(["--config=saved2.cfg"])
    except shimmod.ShimError as e:
        return Outcome(False, True, ["reload_fails"], "the configuration saved by a run from a saved configuration cannot be parsed back: %s\n%s" % (e, open("saved2.cfg").read()[:600]), sig="c13:reload2")
    s.opts_free(hA)
    s.opts_free(hB)
    s.opts_free(hC)
    allnames = set(case["cli"]) | set(case["file"])
    canon = {O.ALIASES.get(k, k) for k in allnames}
    cls = ["ncli%d" % min(len(case["cli"]), 3), "nfile%d" % min(len(case["file"]), 3)]
    if any(k in O.ALIASES for k in case["file"]):
        cls.append("alias")
    if case.get("over_parent") and case["file"]:
        cls.append("saved_over_parent")
    fs_used = gA["SyncFreq"] != 0
    if fs_used:
        cls.append("fs")
    multi = len(gA["BunchCurrents"]) >= 2
    if multi:
        cls.append("multibunch")
    onlyfile = any(k not in case["cli"] for k in case["file"])
    digits = any(isinstance(v, float) and float("%.6g" % v) != v for v in list(case["cli"].values()) + list(case["file"].values()))
    nontriv = bool(len(canon) >= 3 and (multi or fs_used or onlyfile or digits))
    for k in sorted(gA):
        if k in EXCLUDE:
            continue
        if k == "Alpha0" and fs_used:
            continue
        a, b = gA[k], gB[k]
        same = (a == b) or (isinstance(a, float) and isinstance(b, float) and np.isnan(a) and np.isnan(b))
        if not same:
            txt = open("saved.cfg").read()
            line = [l for l in txt.splitlines() if l.split("=")[0] in [n for n, (t, g) in O.OPTS.items() if g == k]]
            return Outcome(False, nontriv, cls, "option behind getter %s: original invocation gives %r, the saved .cfg gives %r (cfg line: %s; cli=%s file=%s)" %
                           (k, a, b, line, case["cli"], case["file"]), sig="c13:getter:%s" % k)
    for k in sorted(gB):
        if k in EXCLUDE or (k == "Alpha0" and gB["SyncFreq"] != 0):
            continue
        a, b = gB[k], gC[k]
        same = (a == b) or (isinstance(a, float) and isinstance(b, float) and np.isnan(a) and np.isnan(b))
        if not same:
            return Outcome(False, nontriv, cls, "second generation, option behind getter %s: the run from the saved .cfg gives %r, the .cfg it saves gives %r (cli=%s file=%s)\n%s" %
                           (k, a, b, case["cli"], case["file"], open("saved2.cfg").read()[:800]), sig="c13:getter2:%s" % k)
    return Outcome(True, nontriv, cls)


@st.composite
def assignments(draw):
    names = sorted(O.OPTS)
    k = draw(st.integers(0, 12))
    chosen = draw(st.lists(st.sampled_from(names), min_size=k, max_size=k, unique=True))
    # alpha0 / synchrotron frequency: all four presence combinations
    mode = draw(st.sampled_from(["none", "alpha", "fs", "both"]))
    chosen = [c for c in chosen if c not in ("alpha0", "SynchrotronFrequency")]
    if mode in ("alpha", "both"):
        chosen.append("alpha0")
    if mode in ("fs", "both"):
        chosen.append("SynchrotronFrequency")
    if draw(st.booleans()):
        chosen.append("BunchCurrent") if "BunchCurrent" not in chosen else None
    cli, fil = {}, {}
    # one assignment in five comes from the command line alone (no parent config file at all: '-c /dev/null')
    cli_only = draw(st.integers(0, 4)) == 0
    for n in chosen:
        v = draw(O.value_strategy(n))
        src = "cli" if cli_only else draw(st.sampled_from(["cli", "file", "both"]))
        if n == "run_anyway":
            continue
        if src in ("cli", "both"):
            cli[n] = v
        if src in ("file", "both"):
            v2 = draw(O.value_strategy(n)) if src == "both" else v
            # legacy name in the parent file: alone, or against the current name on the command line (which must win, and
            # the saved file must carry the value that was actually used - round-4 seed C13d)
            alias = [a for a, c in O.ALIASES.items() if c == n]
            if alias and draw(st.booleans()):
                fil[alias[0]] = v2
            else:
                fil[n] = v2
    for n in O.IGNORED:
        if not cli_only and draw(st.integers(0, 9)) == 0:
            fil[n] = draw(O.value_strategy(n))
    c = dict(cli=cli, file=fil)
    if fil and draw(st.integers(0, 3)) == 0:
        c["over_parent"] = True
    return c


# ------------------------------------------------------------------ end to end: rerun from the saved .cfg
def run_cli(case):
    from vlib import cli, cfggen
    wd = cli.scratch("c13")
    o = dict(case["opts"])
    infile = {k: o.pop(k) for k in case["in_file"] if k in o}
    args = ["-o", "o.h5"] + cli.optargs(o)
    if infile:
        with open(os.path.join(wd, "parent.cfg"), "w") as f:
            for k, v in infile.items():
                if isinstance(v, list):
                    for x in v:
                        f.write("%s=%s\n" % (k, cli.fmt(x)))
                else:
                    f.write("%s=%s\n" % (k, cli.fmt(v)))
        args = ["-c", "parent.cfg"] + args
    else:
        args = ["-c", "/dev/null"] + args
    if case["opts"].get("Impedance") == "zgen.dat":
        cli.write_zgen(os.path.join(wd, "zgen.dat"))       # the option may sit in the parent config file, not in argv
    r1 = cli.run(args, wd)
    if r1.rc != 0 or "Finished." not in r1.out:
        return Outcome(False, True, ["cli"], "run failed: %s %s" % (r1.out[-300:], r1.err[-300:]), sig="c13:cli:runfail")
    r2 = cli.run(["--config", "o.h5.cfg", "-o", "o2.h5"], wd)
    if r2.rc != 0 or "Finished." not in r2.out:
        cfg = open(os.path.join(wd, "o.h5.cfg")).read()
        return Outcome(False, True, ["cli"], "rerun from the saved configuration failed: %s %s\n%s" % (r2.out[-300:], r2.err[-300:], cfg[:800]), sig="c13:cli:rerunfail")
    h1, h2 = cli.H5(os.path.join(wd, "o.h5")), cli.H5(os.path.join(wd, "o2.h5"))
    cls = ["cli", "parentcfg" if infile else "cliopts", "nb%d" % len([x for x in o.get("BunchCurrent", infile.get("BunchCurrent", [1])) if x > 0])]
    for ds in ("/PhaseSpace/data", "/BunchProfile/data", "/Info/AxisValues_t", "/Info/AxisValues_z", "/Info/AxisValues_E", "/WakePotential/data", "/CSR/Intensity/data"):
        if ds in h1.ds:
            if ds not in h2.ds or h1[ds].shape != h2[ds].shape or (h1[ds].view(np.uint8) != h2[ds].view(np.uint8)).any():
                cfg = open(os.path.join(wd, "o.h5.cfg")).read()
                return Outcome(False, True, cls, "rerunning with the saved .cfg does not reproduce %s (options %s, parent file %s)\n%s" % (ds, o, infile, cfg[:1200]), sig="c13:cli:%s" % ds)
    return Outcome(True, True, cls)


@st.composite
def cli_cases(draw):
    from vlib import cfggen
    o = draw(cfggen.base_config(nmin=16, nmax=40, min_laststep=3, max_laststep=30, via_rev=6, machine=3))
    o["outstep"] = draw(st.sampled_from([1, 3]))
    o["FPTrack"] = 0
    keys = sorted(o)
    in_file = draw(st.lists(st.sampled_from(keys), max_size=len(keys), unique=True)) if draw(st.booleans()) else []
    return dict(opts=o, in_file=in_file)


# ------------------------------------------------------------------ coverage-guided: configuration text byte for byte (libFuzzer)
FUZZ_CORPUS = [b"GridSize=64\nalpha0=0.004\nBunchCurrent=0.001\nBunchCurrent=0.002\noutput=x.h5\n\x00--StepsPerTs=100\n--SynchrotronFrequency=8000\n",
               b"SyncFreq=7000\nsteps=50\nRFVoltage=1e6\n", b"", b"# c\nverbose=1\nInitialDistStep=-2\npadding=2.5\n\x00--rotations=0.5\n",
               b"alpha0=0.0055\nSynchrotronFrequency=0\n\x00--BunchCurrent=0.5e-3\n", b"\x00--SynchrotronFrequency=0\n--alpha0=1e-3\n",
               b"InitialDistFile=a.h5\nInitialDistStep=12345678901\ntracking=t.txt\nImpedance=z.dat\nUseCSR=false\nLinearRF=0\n"]


def run_fuzzcfg(case):
    import re
    import subprocess
    from vlib import cli
    wd = cli.scratch("c13f")
    exe = os.environ["VERIF_FUZZCFG"]
    env = dict(os.environ, VERIF_FUZZ_DIR=wd, ASAN_OPTIONS="detect_leaks=0:abort_on_error=0", UBSAN_OPTIONS="print_stacktrace=1:halt_on_error=1")
    if case.get("input_hex") is not None:
        f = os.path.join(wd, "replay.bin")
        open(f, "wb").write(bytes.fromhex(case["input_hex"]))
        p = subprocess.run([exe, f], cwd=wd, env=env, stdout=subprocess.PIPE, stderr=subprocess.PIPE, timeout=120)
        err = p.stderr.decode(errors="replace")
        bad = p.returncode != 0 and ("ORACLE-VIOLATION" in err or "Sanitizer" in err or "runtime error" in err or "deadly signal" in err)
        m = re.search(r"ORACLE-VIOLATION: ([^\n]*(?:\n[^\n]*){0,12})", err)
        return Outcome(not bad, True, ["fuzz_replay"], "configuration text %r: %s" % (bytes.fromhex(case["input_hex"]), m.group(1) if m else err[-400:]),
                       sig=_fuzz_sig(err))
    corpus = os.path.join(wd, "corpus")
    os.makedirs(corpus)
    for i, sd in enumerate(FUZZ_CORPUS):
        open(os.path.join(corpus, "s%d" % i), "wb").write(sd)
    with open(os.path.join(wd, "dict.txt"), "w") as f:
        for n in list(O.OPTS) + list(O.ALIASES) + list(O.IGNORED):
            f.write('"%s="\n"--%s="\n' % (n, n))
        for tok in ["\\x00", "\\x0a", "1e-3", "true", "false", "off", "nan", "inf", "0x10", "#", "[", "]", "-1", "4294967296", "/dev/null", "default.cfg", "=0\\x0a"]:
            f.write('"%s"\n' % tok)
    cmd = [exe, "-seed=%d" % case["seed"], "-runs=%d" % case["runs"], "-max_len=512", "-dict=" + os.path.join(wd, "dict.txt"),
           "-artifact_prefix=" + wd + "/", "-print_final_stats=1", "-timeout=20", corpus]
    try:
        p = subprocess.run(cmd, cwd=wd, env=env, stdout=subprocess.PIPE, stderr=subprocess.PIPE, timeout=case.get("wall", 600))
    except subprocess.TimeoutExpired:
        return Outcome(True, False, ["fuzz_timeout"], discard=True)
    err = p.stderr.decode(errors="replace")
    arts = [f for f in os.listdir(wd) if f.startswith("crash-") or f.startswith("leak-")]
    m = re.search(r"stat::number_of_executed_units: (\d+)", err)
    execs = int(m.group(1)) if m else 0
    cov = re.findall(r"cov: (\d+)", err)
    met = {"fuzz_execs:%d" % case["seed"]: execs, "fuzz_cov": int(cov[-1]) if cov else 0}
    if arts:
        data = open(os.path.join(wd, arts[0]), "rb").read()
        case["input_hex"] = data.hex()
        m = re.search(r"ORACLE-VIOLATION: ([^\n]*(?:\n[^\n]*){0,12})", err)
        return Outcome(False, True, ["fuzz"], "libFuzzer found a configuration text (%r) that breaks the round trip: %s" % (data, m.group(1) if m else err[-600:]),
                       sig=_fuzz_sig(err), metrics=met)
    return Outcome(True, True, ["fuzz"], metrics=met)


def _fuzz_sig(err):
    import re
    m = re.search(r"ORACLE-VIOLATION: (first|second) generation: getter (\w+)", err)
    if m:
        return "c13:fuzz:getter:%s" % m.group(2)
    if "ORACLE-VIOLATION" in err and "rejected" in err:
        return "c13:fuzz:reload"
    m = re.search(r"(ERROR: AddressSanitizer: ([a-zA-Z0-9_-]+)|runtime error: ([^\n]{0,60}))", err)
    if m:
        return "c13:fuzz:san:%s" % (m.group(2) or m.group(3))
    return "c13:fuzz:other"


def fuzz_enum(tier):
    runs = 40000 if tier == "quick" else 300000
    return [dict(seed=3000 + i, runs=runs, wall=400 if tier == "quick" else 2700) for i in range(16)]


def finalize(cov, agg, tier):
    g = agg.get("fuzzcfg")
    if g is not None:
        cov["fuzzcfg_total_executions"] = int(sum(v for k, v in g["metrics"].items() if k.startswith("fuzz_execs:")))
        cov["fuzzcfg_edge_coverage"] = int(g["metrics"].get("fuzz_cov", 0))
        cov["per_subcheck"]["fuzzcfg"]["max_observed"] = {"fuzz_cov": g["metrics"].get("fuzz_cov", 0)}


def subs(tier):
    return [Sub("fuzzcfg", st.just({}), run_fuzzcfg, quick=1, thorough=1, needs=("fuzzcfg",), enum=fuzz_enum,
                max_wall={"quick": 500, "thorough": 3000}),
            Sub("roundtrip", assignments(), run_roundtrip, quick=12000, thorough=150000),
            Sub("cli", cli_cases(), run_cli, quick=144, thorough=400, needs=("rel", "h5x", "shim"), shrink_budget=16)]
