"""C13 — the configuration file saved next to the results reproduces the run (DESIGN.md §3 C13)."""
import os
import numpy as np
from hypothesis import strategies as st

from vlib import gen, opts as O
from vlib.driver import Outcome, Sub
from vlib import shim as shimmod

LEVEL = "exploration"
RULE = ("roundtrip: for a generated subset of ALL registered options a source in {command line, parent config file, both} and a "
        "legal value (floats/doubles arbitrary representable values, 1-5 bunch currents incl. zeros, alpha0 vs synchrotron "
        "frequency in all presence combinations, legacy aliases in the parent file); A.parse(argv); A.save(cfg); "
        "B.parse(--config=cfg); every getter of A must equal the getter of B.  non-trivial = >= 3 options non-default and one of "
        "{>= 2 bunch currents, f_s != 0, option only in the parent file, float needing > 6 digits}.  cli: the real program's "
        ".cfg fed back reproduces the final phase space bit for bit")
ASSUMPTIONS = ["run_anyway is deliberately not written to the .cfg (it cannot influence results once 'output' is in the file) and is not compared",
               "alpha0 is not compared when a synchrotron frequency is given: the frequency then overrides it (documented)",
               "file names without spaces or '#' (boost's config-file grammar cannot carry them)"]
TOLERANCES = {"getters": "bitwise (hex-float text)", "cli_final_phase_space": "bitwise"}
EXCLUDE = {"ForceRun", "HaissinskiIterations"}


def S():
    return shimmod.get()


def parse(args):
    s = S()
    h, run = s.opts_parse(args)
    g = O.decode_getters(s.opts_json(h))
    return h, run, g


def run_roundtrip(case):
    s = S()
    d = os.environ.get("VERIF_SCRATCH", ".")
    os.chdir(d)
    for f in ("parent.cfg", "saved.cfg", "default.cfg"):
        if os.path.exists(f):
            os.remove(f)
    args = O.cli_args(case["cli"])
    if case["file"]:
        with open("parent.cfg", "w") as f:
            f.write(O.cfg_text(case["file"]))
        args = ["--config=parent.cfg"] + args
    else:
        args = ["--config=/dev/null"] + args
    try:
        hA, runA, gA = parse(args)
    except shimmod.ShimError as e:
        return Outcome(True, False, ["rejected"], discard=True, msg=str(e))
    s.opts_save(hA, "saved.cfg")
    try:
        hB, runB, gB = parse(["--config=saved.cfg"])
    except shimmod.ShimError as e:
        txt = open("saved.cfg").read()
        return Outcome(False, True, ["reload_fails"], "saved configuration cannot be parsed back: %s\n%s" % (e, txt[:600]), sig="c13:reload")
    s.opts_free(hA)
    s.opts_free(hB)
    allnames = set(case["cli"]) | set(case["file"])
    canon = {O.ALIASES.get(k, k) for k in allnames}
    cls = ["ncli%d" % min(len(case["cli"]), 3), "nfile%d" % min(len(case["file"]), 3)]
    if any(k in O.ALIASES for k in case["file"]):
        cls.append("alias")
    fs_used = gA["SyncFreq"] != 0
    if fs_used:
        cls.append("fs")
    multi = len(gA["BunchCurrents"]) >= 2
    if multi:
        cls.append("multibunch")
    onlyfile = any(k not in case["cli"] for k in case["file"])
    digits = any(isinstance(v, float) and float("%.6g" % v) != v for v in list(case["cli"].values()) + list(case["file"].values()))
    nontriv = bool(len(canon) >= 3 and (multi or fs_used or onlyfile or digits))
    for k in sorted(gA):
        if k in EXCLUDE:
            continue
        if k == "Alpha0" and fs_used:
            continue
        a, b = gA[k], gB[k]
        same = (a == b) or (isinstance(a, float) and isinstance(b, float) and np.isnan(a) and np.isnan(b))
        if not same:
            txt = open("saved.cfg").read()
            line = [l for l in txt.splitlines() if l.split("=")[0] in [n for n, (t, g) in O.OPTS.items() if g == k]]
            return Outcome(False, nontriv, cls, "option behind getter %s: original invocation gives %r, the saved .cfg gives %r (cfg line: %s; cli=%s file=%s)" %
                           (k, a, b, line, case["cli"], case["file"]), sig="c13:getter:%s" % k)
    return Outcome(True, nontriv, cls)


@st.composite
def assignments(draw):
    names = sorted(O.OPTS)
    k = draw(st.integers(0, 12))
    chosen = draw(st.lists(st.sampled_from(names), min_size=k, max_size=k, unique=True))
    # alpha0 / synchrotron frequency: all four presence combinations
    mode = draw(st.sampled_from(["none", "alpha", "fs", "both"]))
    chosen = [c for c in chosen if c not in ("alpha0", "SynchrotronFrequency")]
    if mode in ("alpha", "both"):
        chosen.append("alpha0")
    if mode in ("fs", "both"):
        chosen.append("SynchrotronFrequency")
    if draw(st.booleans()):
        chosen.append("BunchCurrent") if "BunchCurrent" not in chosen else None
    cli, fil = {}, {}
    for n in chosen:
        v = draw(O.value_strategy(n))
        src = draw(st.sampled_from(["cli", "file", "both"]))
        if n == "run_anyway":
            continue
        if src in ("cli", "both"):
            cli[n] = v
        if src in ("file", "both"):
            v2 = draw(O.value_strategy(n)) if src == "both" else v
            alias = [a for a, c in O.ALIASES.items() if c == n]
            if alias and src == "file" and draw(st.booleans()):
                fil[alias[0]] = v2
            else:
                fil[n] = v2
    for n in O.IGNORED:
        if draw(st.integers(0, 9)) == 0:
            fil[n] = draw(O.value_strategy(n))
    return dict(cli=cli, file=fil)


# ------------------------------------------------------------------ end to end: rerun from the saved .cfg
def run_cli(case):
    from vlib import cli, cfggen
    wd = cli.scratch("c13")
    o = dict(case["opts"])
    infile = {k: o.pop(k) for k in case["in_file"] if k in o}
    args = ["-o", "o.h5"] + cli.optargs(o)
    if infile:
        with open(os.path.join(wd, "parent.cfg"), "w") as f:
            for k, v in infile.items():
                if isinstance(v, list):
                    for x in v:
                        f.write("%s=%s\n" % (k, cli.fmt(x)))
                else:
                    f.write("%s=%s\n" % (k, cli.fmt(v)))
        args = ["-c", "parent.cfg"] + args
    else:
        args = ["-c", "/dev/null"] + args
    r1 = cli.run(args, wd)
    if r1.rc != 0 or "Finished." not in r1.out:
        return Outcome(False, True, ["cli"], "run failed: %s %s" % (r1.out[-300:], r1.err[-300:]), sig="c13:cli:runfail")
    r2 = cli.run(["--config", "o.h5.cfg", "-o", "o2.h5"], wd)
    if r2.rc != 0 or "Finished." not in r2.out:
        cfg = open(os.path.join(wd, "o.h5.cfg")).read()
        return Outcome(False, True, ["cli"], "rerun from the saved configuration failed: %s %s\n%s" % (r2.out[-300:], r2.err[-300:], cfg[:800]), sig="c13:cli:rerunfail")
    h1, h2 = cli.H5(os.path.join(wd, "o.h5")), cli.H5(os.path.join(wd, "o2.h5"))
    cls = ["cli", "parentcfg" if infile else "cliopts", "nb%d" % len([x for x in o.get("BunchCurrent", infile.get("BunchCurrent", [1])) if x > 0])]
    for ds in ("/PhaseSpace/data", "/BunchProfile/data", "/Info/AxisValues_t", "/Info/AxisValues_z", "/Info/AxisValues_E", "/WakePotential/data", "/CSR/Intensity/data"):
        if ds in h1.ds:
            if ds not in h2.ds or h1[ds].shape != h2[ds].shape or (h1[ds].view(np.uint8) != h2[ds].view(np.uint8)).any():
                cfg = open(os.path.join(wd, "o.h5.cfg")).read()
                return Outcome(False, True, cls, "rerunning with the saved .cfg does not reproduce %s (options %s, parent file %s)\n%s" % (ds, o, infile, cfg[:1200]), sig="c13:cli:%s" % ds)
    return Outcome(True, True, cls)


@st.composite
def cli_cases(draw):
    from vlib import cfggen
    o = draw(cfggen.base_config(nmin=16, nmax=40, min_laststep=3, max_laststep=30, via_rev=6))
    o["outstep"] = draw(st.sampled_from([1, 3]))
    o["FPTrack"] = 0
    keys = sorted(o)
    in_file = draw(st.lists(st.sampled_from(keys), max_size=len(keys), unique=True)) if draw(st.booleans()) else []
    return dict(opts=o, in_file=in_file)


def subs(tier):
    return [Sub("roundtrip", assignments(), run_roundtrip, quick=12000, thorough=150000),
            Sub("cli", cli_cases(), run_cli, quick=144, thorough=400, needs=("rel", "h5x", "shim"), shrink_budget=16)]
