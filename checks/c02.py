"""C02 — whole-cell shifts are lossless; fractional shifts reproduce polynomials (DESIGN.md §3 C02)."""
import numpy as np
from hypothesis import strategies as st

from vlib import gen
from vlib.driver import Outcome, Sub
from vlib import shim as shimmod

LEVEL = "exploration"
RULE = ("weights: contiguous blocks of 4096 binary32 bit patterns in [0,1) (every block non-trivial; distinct = distinct "
        "block start), thorough tier enumerates all 2^30 patterns for orders 2,3,4; shift: KickMap with per-row integer "
        "offsets and arbitrary finite binary32 data, non-trivial = some row offset != 0 and data not constant; poly: "
        "degree < it polynomial fields with fractional per-row offsets, non-trivial = some |frac| in [0.05,0.95] and "
        "leading coefficient != 0; rot: RotationMap angle 0 identity / polynomial reproduction")
ASSUMPTIONS = ["float64 numpy evaluation of the Lagrange basis is exact to 1e-15",
               "shim marshals arguments only"]
TOL_W = 4e-7
TOL_POLY = 4e-6
TOLERANCES = {"weight_abs": TOL_W, "weight_sum_abs": TOL_W, "poly_rel_to_maxP": TOL_POLY}
BLK = 4096
ONE_BITS = 0x3F800000  # 1.0f


def S():
    return shimmod.get()


# ------------------------------------------------------------------ (a) weights
def run_weights(case):
    it = case["it"]
    start, count = case["start"], case["count"]
    w = S().coeff_block(start, count, it).astype(np.float64)
    f = (np.arange(start, start + count, dtype=np.uint64).astype(np.uint32)).view(np.float32).astype(np.float64)
    ref = gen.lagrange_ref(f, it)
    err = np.abs(w - ref).max()
    serr = np.abs(w.sum(axis=1) - 1.0).max()
    m = {"w_err_it%d" % it: err, "w_sumerr_it%d" % it: serr}
    if err > TOL_W:
        i = int(np.abs(w - ref).max(axis=1).argmax())
        return Outcome(False, True, msg="weight differs from Lagrange basis by %.3g at f=bits 0x%08x it=%d: got %s want %s" %
                       (err, start + i, it, w[i].tolist(), ref[i].tolist()), sig="weights:value:it%d" % it, metrics=m)
    if serr > TOL_W:
        i = int(np.abs(w.sum(axis=1) - 1.0).argmax())
        return Outcome(False, True, msg="weights do not sum to one (%.3g) at bits 0x%08x it=%d" % (serr, start + i, it),
                       sig="weights:sum:it%d" % it, metrics=m)
    if start == 0:
        w0 = S().coeff(0.0, it)
        ones = int((w0 == 1.0).sum())
        zeros = int((w0 == 0.0).sum())
        if ones != 1 or zeros != it - 1:
            return Outcome(False, True, msg="weights at f=0 are not a single unit weight: %s" % w0.tolist(),
                           sig="weights:zero:it%d" % it, metrics=m)
    return Outcome(True, True, classes=["it%d" % it, "denormal" if start < 0x00800000 else "normal"], metrics=m)


@st.composite
def weights_cases(draw):
    it = draw(st.sampled_from([1, 2, 3, 4]))
    kind = draw(st.sampled_from(["any", "any", "any", "zero", "half", "one", "pow2"]))
    if kind == "any":
        start = draw(st.integers(0, ONE_BITS - BLK))
    elif kind == "zero":
        start = 0
    elif kind == "half":
        start = 0x3F000000 - BLK // 2
    elif kind == "one":
        start = ONE_BITS - BLK
    else:
        e = draw(st.integers(1, 126))
        start = max(0, (e << 23) - BLK // 2)
    return dict(it=it, start=int(start), count=BLK)


def weights_enum(tier):
    if tier != "thorough":
        return None
    big = 1 << 22
    return [dict(it=it, start=s, count=big) for it in (2, 3, 4) for s in range(0, ONE_BITS, big)]


# ------------------------------------------------------------------ (b) whole-cell shifts
def make_world(n, nb):
    s = S()
    s.reset(n, nb)
    fill = np.full(nb, 1.0 / nb, np.float32)
    a = s.ps_new(-6, 6, -6, 6, filling=fill)
    b = s.ps_new(-6, 6, -6, 6, filling=fill)
    return s, a, b


def run_shift(case):
    n, nb, it, axis = case["n"], case["nb"], case["it"], case["axis"]
    ks = np.array(case["offsets"], np.int64)
    r = gen.rng(case["dseed"])
    data = gen.arbitrary_finite_f32(r, (nb, n, n))
    if case.get("const"):
        data[:] = data.flat[0]
    s, a, b = make_world(n, nb)
    s.ps_data(a)[:] = data
    m = s.map_kick(a, b, it, axis)
    # a kick along y (the wake kick) has one displacement block per bunch; "perbunch": every bunch gets its own whole-cell
    # displacements (the rows of bunch b are the given ones rotated by 7*b), otherwise all bunches share the block.  A kick
    # along x (the drift) is the same for all bunches by design.
    lo_, hi_ = -(n // 2), n - 1 - n // 2
    per = bool(case.get("perbunch")) and axis == 1 and nb > 1
    kb = np.stack([np.roll(ks, 7 * bb) if per else ks for bb in range(nb)])
    if per:
        kb = np.stack([np.clip(kb[bb] + (bb % 3) - 1, lo_, hi_) for bb in range(nb)])
    s.map_set_offset(m, kb.astype(np.float32).reshape(-1))
    s.map_apply(m)
    out = s.ps_data(b).copy()
    exp = np.zeros_like(data)
    idx = np.arange(n)
    for bb in range(nb):
        for row in range(n):
            src = idx + kb[bb, row]
            ok = (src >= 0) & (src < n)
            if axis == 1:   # kick along y: rows are x
                exp[bb, row, idx[ok]] = data[bb, row, src[ok]]
            else:           # kick along x: rows are y
                exp[bb, idx[ok], row] = data[bb, src[ok], row]
    # -0.0 cannot survive "0 + x*1": normalise
    eb = gen.bits(exp + np.float32(0.0))
    ob = gen.bits(out)
    nontrivial = bool((ks != 0).any()) and not case.get("const")
    cls = ["it%d" % it, "axis%d" % axis, "nb%d" % min(nb, 2), "neg" if (ks < 0).any() else "nonneg"] + (["perbunch"] if per else []) + (["table>65536"] if n * nb * it > 65536 else [])
    if (eb != ob).any():
        bad = np.argwhere(eb != ob)[0]
        bnum = int(bad[0])
        return Outcome(False, nontrivial, classes=cls,
                       msg="whole-cell shift not bit-exact: n=%d nb=%d it=%d axis=%d at [b,x,y]=%s got %r want %r (row offset %d)" %
                       (n, nb, it, axis, bad.tolist(), float(out[tuple(bad)]), float(exp[tuple(bad)]),
                        int(kb[bad[0], bad[1] if axis == 1 else bad[2]])),
                       sig="shift:axis%d:%s" % (axis, "bunch0" if bnum == 0 else "bunch>=1"))
    return Outcome(True, nontrivial, classes=cls)


@st.composite
def shift_cases(draw):
    n = gen.grid_size(draw, 4, 64, one_in=32)
    nb = draw(st.sampled_from([1, 1, 2, 3])) if n < 200 else draw(st.sampled_from([1, 2]))
    it = draw(st.sampled_from([1, 2, 3, 4]))
    axis = draw(st.sampled_from([0, 1]))
    lo, hi = -(n // 2), n - 1 - n // 2
    mode = draw(st.sampled_from(["rows", "rows", "uniform", "extreme"]))
    if mode == "rows":
        offs = draw(st.lists(st.integers(lo, hi), min_size=n, max_size=n))
    elif mode == "uniform":
        offs = [draw(st.integers(lo, hi))] * n
    else:
        offs = draw(st.lists(st.sampled_from([lo, hi, lo + 1, hi - 1, 0]), min_size=n, max_size=n))
    c = dict(n=n, nb=nb, it=it, axis=axis, offsets=offs, dseed=draw(gen.seeds()))
    if nb > 1 and axis == 1 and draw(st.booleans()):
        c["perbunch"] = True
    if draw(st.integers(0, 59)) == 0:
        # a long train on a fine grid: more than 2^16 entries in the table of interpolation stencils (n*nb*it), per-bunch
        # displacement blocks (round-10 seed C02j keeps an index into that table in 16 bits)
        c.update(n=draw(st.sampled_from([64, 96])), nb=draw(st.integers(180, 300)), it=draw(st.sampled_from([3, 4])), axis=1, perbunch=True)
        lo, hi = -(c["n"] // 2), c["n"] - 1 - c["n"] // 2
        c["offsets"] = draw(st.lists(st.integers(lo, hi), min_size=c["n"], max_size=c["n"]))
    return c


# ------------------------------------------------------------------ (c) polynomial reproduction
def run_poly(case):
    n, it, axis, nb = case["n"], case["it"], case["axis"], case["nb"]
    offs = np.array(case["offsets"], np.float32)
    coef = np.array(case["coef"], np.float64)     # degree < it  (len == it) or degree == it (len == it+1, negative control)
    r = gen.rng(case["dseed"])
    rowfac = r.uniform(0.5, 2.0, size=(nb, n)) * r.choice([-1.0, 1.0], size=(nb, n))
    c = np.arange(n, dtype=np.float64)
    center = (n - 1) / 2.0
    u = (c - center) / max(center, 1.0)           # scaled coordinate in [-1,1]: |P| stays moderate

    def P(x):
        uu = (x - center) / max(center, 1.0)
        return sum(coef[d] * uu ** d for d in range(len(coef)))

    line = P(c)
    data = np.empty((nb, n, n), np.float32)
    for b in range(nb):
        for row in range(n):
            if axis == 1:
                data[b, row, :] = (rowfac[b, row] * line).astype(np.float32)
            else:
                data[b, :, row] = (rowfac[b, row] * line).astype(np.float32)
    s, a, bb = make_world(n, nb)
    s.ps_data(a)[:] = data
    m = s.map_kick(a, bb, it, axis)
    s.map_set_offset(m, np.tile(offs, nb))
    s.map_apply(m)
    out = s.ps_data(bb).astype(np.float64)
    maxerr = 0.0
    worst = None
    nontrivial = False
    negctl = len(coef) == it + 1
    negseen = 0.0
    half = np.float32(n // 2)
    for row in range(n):
        o = offs[row]
        # the code forms (n/2 + offset) in single precision: that rounding is part of "to rounding"
        poffs = np.float32(half + o)
        o_eff = float(poffs) - float(half)
        jd = int(np.floor(float(poffs)))
        lo_src = (jd - (n // 2)) - (it - 1) // 2       # stencil of destination cell c is c + lo_src ... c + lo_src + it-1
        cs = c[(c + lo_src >= 0) & (c + lo_src + it - 1 <= n - 1)]
        if len(cs) == 0:
            continue
        frac = float(poffs) - jd
        if 0.05 <= frac <= 0.95 and abs(coef[min(it - 1, len(coef) - 1)]) > 0:
            nontrivial = True
        for b in range(nb):
            ref = rowfac[b, row] * P(cs + o_eff)
            got = out[b, row, cs.astype(int)] if axis == 1 else out[b, cs.astype(int), row]
            scale = abs(rowfac[b, row]) * np.abs(coef).sum()
            e = np.abs(got - ref).max() / max(scale, 1e-30)
            if negctl:
                if 0.2 <= frac <= 0.8:
                    negseen = max(negseen, e)
                continue
            if e > maxerr:
                maxerr = e
                worst = (b, row, float(o), frac)
    cls = ["it%d" % it, "axis%d" % axis, "negctl" if negctl else "repro"]
    if negctl:
        # a degree-it polynomial must NOT be reproduced (oracle is not vacuous)
        # (diagnostic only: recorded, never a violation; finalize() reports if the control never separates)
        return Outcome(True, nontrivial, classes=cls, metrics={"negctl_err": negseen})
    if maxerr > TOL_POLY:
        return Outcome(False, nontrivial, classes=cls,
                       msg="polynomial of degree<%d not reproduced: rel err %.3g at bunch,row,offset,frac=%s n=%d axis=%d" %
                       (it, maxerr, worst, n, axis), sig="poly:it%d:axis%d:%s" % (it, axis, "bunch0" if worst[0] == 0 else "bunch>=1"),
                       metrics={"poly_err": maxerr})
    return Outcome(True, nontrivial, classes=cls, metrics={"poly_err_it%d" % it: maxerr})


@st.composite
def poly_cases(draw):
    n = gen.grid_size(draw, 8, 64, one_in=32)
    it = draw(st.sampled_from([1, 2, 3, 4]))
    axis = draw(st.sampled_from([0, 1]))
    nb = draw(st.sampled_from([1, 1, 2]))
    negctl = draw(st.integers(0, 9)) == 0
    ncoef = it + 1 if negctl else it
    coef = [gen.f32(draw(st.floats(-1, 1, allow_nan=False))) for _ in range(ncoef)]
    if abs(coef[-1]) < 0.05:
        coef[-1] = 0.5 if coef[-1] >= 0 else -0.5
    lim = n / 2 - it - 2
    mode = draw(st.sampled_from(["rows", "uniform"]))
    if mode == "rows":
        offs = [gen.offset_mixture(draw, lim) for _ in range(n)]
    else:
        offs = [gen.offset_mixture(draw, lim)] * n
    return dict(n=n, nb=nb, it=it, axis=axis, coef=coef, offsets=offs, dseed=draw(gen.seeds()))


# ------------------------------------------------------------------ (d) RotationMap
def run_rot(case):
    n, it, mapsize, angle = case["n"], case["it"], case["mapsize"], case["angle"]
    s = S()
    s.reset(n, 1)
    sh = case.get("shift", 0.0)
    a = s.ps_new(-6 + sh, 6 + sh, -6 + sh, 6 + sh)
    b = s.ps_new(-6 + sh, 6 + sh, -6 + sh, 6 + sh)
    r = gen.rng(case["dseed"])
    rms = n * n if mapsize else 0
    # polynomial x^a y^b, a,b < it
    pa, pb = case["pa"], case["pb"]
    geom = s.ps_get(a, "geom")
    zx, zy = float(geom[2]), float(geom[3])
    c = np.arange(n, dtype=np.float64)
    X, Y = np.meshgrid((c - zx) / (n / 2.0), (c - zy) / (n / 2.0), indexing="ij")

    def P(x, y):
        return x ** pa * y ** pb + 0.5

    s.ps_data(a)[0] = P(X, Y).astype(np.float32)
    m = s.map_rotation(a, b, angle, it, 0, rms)
    s.map_apply(m)
    out = s.ps_data(b)[0].astype(np.float64)
    # backward rotation: destination (x,y) takes the value at R(-angle)(x,y) about the zero bins
    ca, sa = np.cos(-np.float32(angle)), np.sin(-np.float32(angle))
    Xs = ca * X - sa * Y
    Ys = sa * X + ca * Y
    Xs2 = ca * X + sa * Y
    Ys2 = -sa * X + ca * Y
    mg = it + 2 + int(np.ceil(abs(angle) * n / 2))
    inner = (slice(mg, n - mg), slice(mg, n - mg))
    if n - 2 * mg < 2:
        return Outcome(True, False, discard=True)
    e1 = np.abs(out[inner] - P(Xs, Ys)[inner]).max()
    e2 = np.abs(out[inner] - P(Xs2, Ys2)[inner]).max()
    e = min(e1, e2)   # the sense of rotation is C03's business, not this property's
    nontrivial = (pa + pb) >= 1
    if e > 2e-5:
        return Outcome(False, nontrivial, classes=["rotpoly"], msg="RotationMap does not reproduce x^%d y^%d (it=%d, angle=%g, n=%d, mapsize=%d): err %.3g" % (pa, pb, it, angle, n, rms, e),
                       sig="rot:poly:it%d" % it, metrics={"rot_err": e})
    return Outcome(True, nontrivial, classes=["rotpoly", "it%d" % it, "map%d" % int(bool(mapsize))], metrics={"rot_err": e})


@st.composite
def rot_cases(draw):
    n = draw(st.integers(12, 48))
    it = draw(st.sampled_from([2, 3, 4]))
    mapsize = draw(st.sampled_from([0, 1]))
    if draw(st.integers(0, 3)) == 0:
        angle = 0.0
    else:
        angle = gen.f32(draw(st.floats(1e-3, 0.3)) * draw(st.sampled_from([-1.0, 1.0])))
    pa = draw(st.integers(0, it - 1))
    pb = draw(st.integers(0, it - 1))
    return dict(n=n, it=it, mapsize=mapsize, angle=angle, pa=pa, pb=pb, dseed=draw(gen.seeds()),
                shift=draw(st.sampled_from([0.0, 0.0, 0.7, -1.3])))


# ------------------------------------------------------------------ coverage-guided (libFuzzer, fuzz/fuzz_maps.cpp, oracle "shift")
from vlib import fuzzrun  # noqa: E402

MAPS_CORPUS = [bytes(range(200)), bytes([0] * 64), bytes([255, 3, 128, 64] * 64), bytes([17, 200, 90] * 100) + bytes([1, 9, 2, 3, 1, 0])]
run_fuzzshift = fuzzrun.make_runner("c02", "VERIF_FUZZMAPS", MAPS_CORPUS, max_len=4096, env_extra={"VERIF_MAPS_ORACLE": "shift"})


def subs(tier):
    return [
        Sub("fuzzshift", st.just({}), run_fuzzshift, quick=1, thorough=1, needs=("fuzzmaps",),
                enum=lambda t: fuzzrun.campaigns(t, 12000, 250000), max_wall={"quick": 400, "thorough": 3000}),
            Sub("weights", weights_cases(), run_weights, quick=5120, thorough=4096, enum=weights_enum),
        Sub("shift", shift_cases(), run_shift, quick=7500, thorough=60000),
        Sub("poly", poly_cases(), run_poly, quick=7500, thorough=60000),
        Sub("rot", rot_cases(), run_rot, quick=1500, thorough=6000),
    ]


def finalize(cov, agg, tier):
    fuzzrun.finalize(cov, agg, "fuzzshift")
    g = agg.get("poly")
    if g is not None:
        ne = g["metrics"].get("negctl_err", 0.0)
        cov["negative_control"] = "largest error of a degree-it polynomial under the it-point scheme: %.3g (tolerance for degree<it: %.3g)" % (ne, TOL_POLY)
        if ne < 20 * TOL_POLY:
            cov.setdefault("health", []).append("poly: negative control did not separate (%.3g)" % ne)
    if tier == "thorough" and "weights" in agg:
        cov["exhaustive_subspaces"] = ["all 2^30 binary32 values in [0,1) for interpolation orders 2,3,4 (weights sub-check)"]
