"""C04 — without impedance every start relaxes to the unit-width natural Gaussian (DESIGN.md §3 C04)."""
import os
import numpy as np
from hypothesis import strategies as st

from vlib import gen, cli, cfggen
from vlib.driver import Outcome, Sub

LEVEL = "exploration"
RULE = ("real runs without impedance: GridSize in {48,64,96,128}, StepsPerTs 50..400, damping time chosen so that the per-step "
        "decrement e1 lies in the explicit scheme's stable range (e1/delta^2 < 0.35), derivative stencil 3/4, interpolation order "
        "3/4 (orders 1 and 2 are excluded: their numerical diffusion per step exceeds the physical diffusion, so 'within the "
        "discretisation error of the grid' carries no information), initial zoom 0.1..2 (starts narrower than 0.5 only with FPType 3: below that the start is narrower than two cells), FPType 3 (full; run length 5 configured "
        "damping times, also judged after 2), 1 (damping only), 2 (diffusion only), 0 (neither).  non-trivial = |zoom-1| >= 0.25 "
        "and the run spans >= 3 synchrotron periods; distinct = case hash")
ASSUMPTIONS = ["'converges' is decided after a run length fixed in units of the configured damping time (5), not asymptotically",
               "tau_disc = 0.5*delta^2 + 0.003 (3-point stencil), 0.1*delta^2 + 0.003 (4-point): calibrated, observed 0.27*delta^2 and <= 0.0026"]
TOLERANCES = {"equilibrium": "tau_disc(n, stencil) + e1", "after_2_damping_times": "|sigma(2 t_d) - sigma(end)| <= 1.6/(1-e1/(2 theta))*|z^2-1|/2*exp(-4) + 0.004",
              "stationarity_last_20pct": "tau_disc/2 + 3e-4", "monotone_ripple": "sum of the variances may move against the trend by 1.4*theta relative per record (kick-drift splitting)"}


def tau_disc(n, deriv, pq=12.0):
    delta = pq / (n - 1)
    return (0.5 if deriv == 3 else 0.1) * delta ** 2 + 0.003


def under(e1, theta):
    """Damping acts on the energy only; the widths follow exp(-2t/t_d) exactly only for weak damping (e1 << rotation angle
    per step).  For the damped oscillator q' = w p, p' = -w q - 2a p with a/w = e1/(2 theta) the second moments carry an
    oscillating part whose envelope exceeds the averaged decay by up to 1/(1 - a/w)."""
    r = min(e1 / (2 * theta), 0.9)
    return 1.0 / (1.0 - r)


def run_one(o, wd, name):
    r = cli.run(["-c", "/dev/null", "-o", name] + cli.optargs(o), wd, timeout=600)
    if r.rc != 0 or "Finished." not in r.out:
        return None, "run failed: %s %s" % (r.out[-300:], r.err[-300:])
    h = cli.H5(os.path.join(wd, name))
    return h, ""


def run_case(case):
    wd = cli.scratch("c04")
    n, steps, e1, z, fpt = case["n"], case["steps"], case["e1"], case["zoom"], case["fptype"]
    d0 = cfggen.derive(dict(GridSize=n, StepsPerTs=steps))
    fs = d0["fs"]
    td = 2.0 / (fs * e1 * steps)
    K = case["K"]
    periods = K * td * fs
    nrec = 120
    o = dict(GridSize=n, StepsPerTs=steps, DampingTime=td, rotations=periods, outstep=max(1, int(periods * steps / nrec)),
             VacuumGap=0.0, InitialDistZoom=z, InterpolationPoints=case["it"], derivation=case["deriv"], FPType=fpt,
             RenormalizeCharge=case["renorm"])
    if case.get("offset") and not case.get("nb2"):
        # the same relaxation for a bunch that does not start on the origin (start distribution read from a file): the
        # sizes are central moments, a rotating centre of charge must not leak into them (round-9 seed C04i measures the
        # energy spread about the mean POSITION)
        dq0, dp0 = case["offset"]
        delta0 = 12.0 / (n - 1)
        ax = -6.0 + np.arange(n) * delta0
        Q0, P0 = np.meshgrid(ax, ax, indexing="ij")
        dens0 = np.exp(-((Q0 - dq0) ** 2 + (P0 - dp0) ** 2) / (2 * z * z)) / (2 * np.pi * z * z)
        cli.mkds(os.path.join(wd, "start.h5"), "/PhaseSpace/data", dens0.astype(np.float32)[None, None])
        o["InitialDistFile"] = "start.h5"
    if case.get("nb2"):
        # "the bunch length and energy spread converge": of every bunch - the last bunch of a two-bunch fill is judged
        # (without impedance the bunches are independent; round-7 seed C04g carries only the first one through the
        # identity step that stands in for the wake kick)
        o["BunchCurrent"] = [1e-3, 2e-3]
    if case.get("off_via_td"):
        # the second way to switch the Fokker-Planck term off: DampingTime = 0 ("Fokker-Planck-Term is neglected."), with the
        # full operator type selected (round-6 seed C04f falls back to the ring's calculated damping time for exactly 0)
        o["DampingTime"] = 0.0
        o["FPType"] = 3
    if case.get("via_rev"):
        # the documented second route to the step count: StepsPerRevolution overwrites StepsPerTs (which carries a decoy)
        o["StepsPerRevolution"] = float(steps * d0["fs"] / d0["frev"])
        o["StepsPerTs"] = int(case["via_rev"])
    h, msg = run_one(o, wd, "r.h5")
    cls = (["displaced_start"] if case.get("offset") and not case.get("nb2") else []) + (["two_bunches"] if case.get("nb2") else []) + (["steps_per_revolution"] if case.get("via_rev") else []) + (["off_via_dampingtime"] if case.get("off_via_td") else []) + ["fpt%d" % fpt, "d%d" % case["deriv"], "it%d" % case["it"], "n%d" % n,
           "zoom<0.3" if z < 0.3 else ("zoom<0.75" if z < 0.75 else ("zoom>1.25" if z > 1.25 else "zoom~1"))]
    if h is None:
        return Outcome(False, True, cls, msg, sig="c04:runfail")
    sq = h["/BunchLength/data"][:, -1].astype(np.float64)
    sp = h["/EnergySpread/data"][:, -1].astype(np.float64)
    t = h["/Info/AxisValues_t"].astype(np.float64)
    theta = 2 * np.pi / steps
    tau = tau_disc(n, case["deriv"])
    nontriv = bool(abs(z - 1) >= 0.25 and periods >= 3)
    met = {}
    if not (np.isfinite(sq).all() and np.isfinite(sp).all()):
        return Outcome(False, nontriv, cls, "bunch length / energy spread not finite", sig="c04:nan")
    if fpt == 3:
        # 1. equilibrium
        dev = max(abs(sq[-1] - 1), abs(sp[-1] - 1))
        met["eq_dev_over_tau"] = dev / (tau + e1)
        if dev > tau + e1:
            return Outcome(False, nontriv, cls, "after %g configured damping times bunch length %.5f / energy spread %.5f (natural units), expected 1 +- %.4f (n=%d, stencil %d, it=%d, e1=%.3g, zoom=%g)" %
                           (K, sq[-1], sp[-1], tau + e1, n, case["deriv"], case["it"], e1, z), sig="c04:equilibrium", metrics=met)
        # 2. after two damping times the remaining excess is (z^2-1)/2 * exp(-4); a rate that is too slow leaves more
        i2 = int(np.argmin(np.abs(t - 2 * td * fs)))
        # measured against the run's own end value, so that the discretisation bias of the grid cancels
        allow2 = 1.6 * under(e1, theta) * abs(z * z - 1) / 2 * np.exp(-4) + 0.004 + 0.6 * theta * abs(z - 1) * np.exp(-2)
        dev2 = max(abs(sq[i2] - sq[-1]), abs(sp[i2] - sp[-1]))
        met["dev2_over_allow"] = dev2 / allow2
        if dev2 > allow2:
            return Outcome(False, nontriv, cls, "after 2 configured damping times bunch length %.5f / energy spread %.5f still %.4f away from 1 (allowed %.4f: relaxation slower than configured; zoom=%g e1=%.3g steps=%d)" %
                           (sq[i2], sp[i2], dev2, allow2, z, e1, steps), sig="c04:rate", metrics=met)
        # 3. stationarity over the last 20 %
        k = max(2, len(sq) // 5)
        pt = max(np.ptp(sq[-k:]), np.ptp(sp[-k:]))
        met["stationarity_over_allow"] = pt / (tau / 2 + 3e-4)
        if pt > tau / 2 + 3e-4:
            return Outcome(False, nontriv, cls, "not stationary: over the last %d records the widths vary by %.4g" % (k, pt), sig="c04:stationary", metrics=met)
        # 4. independence of the start
        if case.get("zoom2"):
            h2, msg = run_one(dict(o, InitialDistZoom=case["zoom2"]), wd, "r2.h5")
            if h2 is None:
                return Outcome(False, nontriv, cls, msg, sig="c04:runfail")
            e = max(abs(h2["/BunchLength/data"][-1, -1] - sq[-1]), abs(h2["/EnergySpread/data"][-1, -1] - sp[-1]))
            met["start_dependence"] = float(e / tau)
            if e > tau:
                return Outcome(False, nontriv, cls, "limit depends on the start: zoom %g ends at %.5f/%.5f, zoom %g at %.5f/%.5f" %
                               (z, sq[-1], sp[-1], case["zoom2"], h2["/BunchLength/data"][-1, -1], h2["/EnergySpread/data"][-1, -1]), sig="c04:startdep", metrics=met)
            cls.append("pair")
    else:
        # Damping / diffusion act on the energy only and the rotation exchanges q and p: the individual widths therefore
        # oscillate around their trend (relative amplitude ~ e1/theta), while the rotation-invariant sum of the variances
        # changes monotonically (up to the O(theta) tilt of the kick-drift scheme's invariant ellipse)
        S = sq ** 2 + sp ** 2
        relS = np.diff(S) / S[:-1]
        ripple = 1.4 * theta + 1e-4
        if fpt == 1 and (relS.max() > ripple or not (sq[-1] < 0.8 * sq[0] and sp[-1] < 0.8 * sp[0])):
            return Outcome(False, nontriv, cls, "damping only: the spread (sum of the variances) does not shrink monotonically (largest relative rise between records %.4g; widths %.4f/%.4f -> %.4f/%.4f)" %
                           (relS.max(), sq[0], sp[0], sq[-1], sp[-1]), sig="c04:damping_only", metrics=met)
        if fpt == 2 and (relS.min() < -ripple or not (sq[-1] > 1.1 * sq[0] and sp[-1] > 1.1 * sp[0])):
            return Outcome(False, nontriv, cls, "diffusion only: the spread (sum of the variances) does not grow monotonically (largest relative drop %.4g; widths %.4f/%.4f -> %.4f/%.4f)" %
                           (-relS.min(), sq[0], sp[0], sq[-1], sp[-1]), sig="c04:diffusion_only", metrics=met)
        for nm, s_ in (("bunch length", sq), ("energy spread", sp)):
            if fpt in (1, 2):
                continue
            else:
                dv = np.abs(s_ - s_[0]).max() / s_[0]
                met["none_drift"] = max(met.get("none_drift", 0), dv / (0.7 * theta + 0.01))
                if dv > 0.7 * theta + 0.01:
                    return Outcome(False, nontriv, cls, "no damping, no diffusion: %s moves by %.4g (relative), start %.4f" % (nm, dv, s_[0]), sig="c04:none", metrics=met)
    return Outcome(True, nontriv, cls, metrics=met)


@st.composite
def cases(draw, fast=True):
    n = draw(st.sampled_from([48, 64, 64, 96, 128] if not fast else [48, 64, 64, 96]))
    delta = 12.0 / (n - 1)
    steps = draw(st.integers(50, 400))
    lo = 1e-3 if fast else 2e-4
    # the decrement must dominate the grid's own numerical dissipation per step (grows with the cell size and the rotation
    # angle per step; calibration scan: n=48 needs e1*steps/100 >= 1e-3, n=64 >= 4e-4, n>=96 fine down to 2e-4; a thorough run found
    # n=48, quadratic interpolation, e1*steps/100 = 1.24e-3 settling at 0.9892 from EVERY start (zoom 0.1..2), 1.1 x the
    # allowance: the floors were raised to 2e-3 / 8e-4)
    cmin = {48: 2e-3, 64: 8e-4}.get(n, 2e-4)
    lo = max(lo, cmin * 100.0 / steps)
    hi = min(2e-2, 0.48 * delta ** 2)      # the explicit scheme is stable up to e1/delta^2 = 0.5
    lo = min(lo, hi)
    e1 = float(10 ** draw(st.floats(np.log10(lo), np.log10(hi))))
    fpt = draw(st.sampled_from([3, 3, 3, 3, 1, 2, 0]))
    z = float(draw(st.sampled_from([0.1, 0.2, 0.3, 0.5, 0.6, 0.7, 1.0, 1.4, 1.5, 2.0])) if draw(st.booleans()) else
              gen.f32(draw(st.one_of(st.floats(0.1, 0.4), st.floats(0.4, 0.75), st.floats(1.25, 2.0)))))
    c = dict(n=n, steps=steps, e1=e1, zoom=z, fptype=fpt, it=draw(st.sampled_from([3, 4, 4])), deriv=draw(st.sampled_from([3, 4])),
             renorm=draw(st.sampled_from([-1, 0, 0, 50])), K=5.0)
    if draw(st.integers(0, 4)) == 0:
        c["nb2"] = True
    elif draw(st.integers(0, 4)) == 0 and z <= 1.5:
        c["offset"] = [float(draw(st.sampled_from([-0.8, -0.4, 0.5, 0.9]))), float(draw(st.sampled_from([-0.6, 0.0, 0.3, 0.7])))]
    if draw(st.integers(0, 5)) == 0:
        c["via_rev"] = draw(st.sampled_from([10, 100, 1000, 3000]))
    if fpt == 3 and draw(st.integers(0, 3)) == 0:
        c["zoom2"] = float(draw(st.sampled_from([0.6, 1.0, 1.7])))
    # the distribution has to stay inside the grid (+-6 natural units): wide starts only where damping shrinks them
    if fpt == 1:
        c["K"] = 1.0
        c["zoom"] = min(max(z, 0.7), 1.5)
    if fpt == 2:
        c["K"] = 0.5
        c["zoom"] = min(max(z, 0.5), 1.0)
    if fpt == 0:
        c["K"] = min(5.0, 5.0 * e1 * steps / 10 * 1.0)      # at most 5 synchrotron periods
        c["zoom"] = min(max(z, 0.5), 1.3)
        if draw(st.booleans()):
            c["off_via_td"] = True
            c["zoom"] = draw(st.sampled_from([0.5, 0.6]))
            c["K"] = 2.5 * e1 * steps               # K*td*fs = 2K/(e1*steps) = 5 synchrotron periods
    return c


# ------------------------------------------------------------------ API cross-check: operator iterated in the shim, e1 given directly
def run_api(case):
    from vlib import shim as shimmod
    s = shimmod.get()
    n, steps, e1, z, fpt, it, deriv = case["n"], case["steps"], case["e1"], case["zoom"], case["fptype"], case["it"], case["deriv"]
    s.reset(n, 1)
    L = 6.0
    sy = case.get("sy", 0.0)
    kw = dict(qscale=1.2e-3, pscale=6.11e5)
    g1 = s.ps_new(-L, L, -L + sy, L + sy, zoom=z, **kw)
    g2 = s.ps_new(-L, L, -L + sy, L + sy, **kw)
    g3 = s.ps_new(-L, L, -L + sy, L + sy, **kw)
    theta = float(np.float32(2 * np.pi / steps))
    rf = s.map_rf_linear(g1, g2, theta, 5e8, it)
    dr = s.map_drift(g2, g3, [theta, 0.0, 0.0], 1.3e9, it)
    fp = s.map_fp(g3, g1, fpt, 0, e1, deriv)
    q = s.ps_get(g1, "axis0").astype(np.float64)
    p = s.ps_get(g1, "axis1").astype(np.float64)

    def widths():
        d = s.ps_data(g1)[0].astype(np.float64)
        tot = d.sum()
        pq_, pp_ = d.sum(axis=1) / tot, d.sum(axis=0) / tot
        mq, mp = (pq_ * q).sum(), (pp_ * p).sum()
        return np.sqrt((pq_ * (q - mq) ** 2).sum()), np.sqrt((pp_ * (p - mp) ** 2).sum())
    nsteps = int(case["K"] * 2 / e1)
    rec_at = int(2 * 2 / e1)
    w0 = widths()
    w2 = None
    hist = []
    every = max(1, nsteps // 60)
    for k in range(nsteps):
        s.map_apply(rf)
        s.map_apply(dr)
        s.map_apply(fp)
        if k + 1 == rec_at:
            w2 = widths()
        if (k + 1) % every == 0:
            hist.append(widths())
    we = widths()
    tau = tau_disc(n, deriv)
    cls = ["api", "fpt%d" % fpt, "d%d" % deriv, "it%d" % it, "shifted" if sy else "centred"]
    nontriv = bool(abs(z - 1) >= 0.25)
    met = {}
    if fpt == 3:
        dev = max(abs(we[0] - 1), abs(we[1] - 1))
        met["api_eq_dev_over_tau"] = dev / (tau + e1)
        if dev > tau + e1:
            return Outcome(False, nontriv, cls, "operator level: after %d steps (5 damping times) widths %.5f / %.5f, expected 1 +- %.4f (n=%d stencil %d it=%d e1=%.3g zoom=%g shiftY=%g)" %
                           (nsteps, we[0], we[1], tau + e1, n, deriv, it, e1, z, sy), sig="c04:api:equilibrium", metrics=met)
        if w2 is not None:
            allow2 = 1.6 * under(e1, theta) * abs(z * z - 1) / 2 * np.exp(-4) + 0.004 + 0.6 * theta * abs(z - 1) * np.exp(-2)
            dev2 = max(abs(w2[0] - we[0]), abs(w2[1] - we[1]))
            met["api_dev2_over_allow"] = dev2 / allow2
            if dev2 > allow2:
                return Outcome(False, nontriv, cls, "operator level: after 2 damping times widths %.5f / %.5f are still %.4f from their limit (allowed %.4f)" % (w2[0], w2[1], dev2, allow2), sig="c04:api:rate", metrics=met)
    else:
        h = np.array(hist)
        S = h[:, 0] ** 2 + h[:, 1] ** 2
        relS = np.diff(S) / S[:-1]
        ripple = 1.4 * theta + 1e-4
        if fpt == 1 and (relS.max() > ripple or not (h[-1, 0] < 0.8 * w0[0] and h[-1, 1] < 0.8 * w0[1])):
            return Outcome(False, nontriv, cls, "operator level, damping only: the spread does not shrink monotonically (largest relative rise of the summed variances %.3g; %.4f/%.4f -> %.4f/%.4f)" %
                           (relS.max(), w0[0], w0[1], h[-1, 0], h[-1, 1]), sig="c04:api:damping_only")
        if fpt == 2 and (relS.min() < -ripple or not (h[-1, 0] > 1.1 * w0[0] and h[-1, 1] > 1.1 * w0[1])):
            return Outcome(False, nontriv, cls, "operator level, diffusion only: the spread does not grow monotonically (%.4f/%.4f -> %.4f/%.4f)" % (w0[0], w0[1], h[-1, 0], h[-1, 1]), sig="c04:api:diffusion_only")
        for j, nm in ((0, "bunch length"), (1, "energy spread")):
            if fpt == 0 and np.abs(h[:, j] - w0[j]).max() / w0[j] > 0.7 * theta + 0.01:
                return Outcome(False, nontriv, cls, "operator level, neither: %s moves by %.4g" % (nm, np.abs(h[:, j] - w0[j]).max() / w0[j]), sig="c04:api:none")
    return Outcome(True, nontriv, cls, metrics=met)


@st.composite
def api_cases(draw):
    c = draw(cases(fast=True))
    c["n"] = draw(st.sampled_from([48, 64, 64, 80]))
    delta = 12.0 / (c["n"] - 1)
    c["e1"] = float(10 ** draw(st.floats(np.log10(2e-3), np.log10(min(2e-2, 0.35 * delta ** 2)))))
    c["sy"] = gen.f32(draw(st.floats(-1.0, 1.0))) if draw(st.booleans()) else 0.0
    c["K"] = {0: 0.2, 1: 1.0, 2: 0.5, 3: 5.0}[c["fptype"]]
    return c


def subs(tier):
    return [Sub("relax", cases(fast=(tier == "quick")), run_case, quick=320, thorough=1500, needs=("rel", "h5x"), shrink_budget=16,
                max_wall={"quick": 400, "thorough": 3000}),
            Sub("api", api_cases(), run_api, quick=96, thorough=2000, needs=("shim",), shrink_budget=16)]
