"""C08 — in a multi-bunch run every bunch evolves exactly as it would on its own (DESIGN.md §3 C08).

Oracle: differential against the single-bunch code path.  The multi-bunch world and, for every bunch b, a fresh
single-bunch world (same axes, data = slice b, displacement field = block b) run the same map; slice b of the
multi-bunch result must be bit-identical to the single-bunch result."""
import numpy as np
from hypothesis import strategies as st

from vlib import gen
from vlib.driver import Outcome, Sub
from vlib import shim as shimmod

LEVEL = "exploration"
RULE = ("generated: nb in 2..5, n in 8..48, interpolation order 1..4, map kind in {generic y-kick with per-bunch field, generic "
        "x-kick, RF linear/sinusoidal, drift, Fokker-Planck (all variants), wake kick from a real multi-bunch field, "
        "identity, chain of 1-5 full steps}; non-trivial = data of at least two bunches differ and (for per-bunch "
        "fields) the displacement blocks of at least two bunches differ; distinct = distinct case hash")
ASSUMPTIONS = ["two executions of the same arithmetic in the same order give identical bits (no FMA re-association "
               "between the multi- and single-bunch loops: both run the same compiled loop body)"]
TOLERANCES = {"all comparisons": "bitwise"}

MAPKINDS = ["kick_y", "kick_y", "kick_x", "rf_lin", "rf_sin", "drift", "fp", "wake", "identity", "chain"]


def S():
    return shimmod.get()


def extents(case):
    L = case["L"]
    sx, sy = case["sx"], case["sy"]
    return (-L + sx, L + sx, -L + sy, L + sy)


def build_map(s, kind, case, a, b, nb, field=None, offsets=None):
    it = case["it"]
    if kind == "kick_y":
        m = s.map_kick(a, b, it, 1)
        s.map_set_offset(m, offsets)
        return m
    if kind == "kick_x":
        m = s.map_kick(a, b, it, 0)
        s.map_set_offset(m, offsets)
        return m
    if kind == "rf_lin":
        return s.map_rf_linear(a, b, case["angle"], 5e8, it)
    if kind == "rf_sin":
        return s.map_rf_sin(a, b, case["revpart"], case["V"], 5e8, case["V0"], it)
    if kind == "drift":
        return s.map_drift(a, b, case["slip"], 1.3e9, it)
    if kind == "fp":
        return s.map_fp(a, b, case["fptype"], 0, case["e1"], case["deriv"])
    if kind == "identity":
        return s.map_identity(a, b)
    raise ValueError(kind)


def gen_data(case, nb, n):
    r = gen.rng(case["dseed"])
    data = gen.moderate_f32(r, (nb, n, n), case["dkind"])
    if case.get("identical"):
        data[:] = data[0]
    return data


def gen_offsets(case, nb, n):
    r = gen.rng(case["dseed"] + 17)
    amp = case["amp"]
    base = r.uniform(-amp, amp, size=(nb, n)).astype(np.float32)
    if case.get("intoffs"):
        base = np.round(base)
    if case.get("sameblocks"):
        base[:] = base[0]
    return base.astype(np.float32)


def make_field(s, ps, case, nb, n):
    bk = case["buckets"]
    spacing = case["spacing"]
    N = case["N"]
    r = gen.rng(case["dseed"] + 5)
    z = (r.standard_normal(N) + 1j * r.standard_normal(N)).astype(np.complex64)
    imp = s.imp_array(z, fmax=1e12)
    # pilot at unit current, then scale the current so that the largest kick is case["amp"] cells (construction
    # instead of rejection: the wake is linear in the current)
    ef = s.ef_wake(ps, imp, bk, spacing, 9e6, case["revp"], 1.0, 1.3e9, 4.7e-4, case["dt"])
    s.ef_do(ef, "wake")
    mx = float(np.abs(s.ef_get(ef, "wake")).max())
    Ib = case["amp"] / mx if mx > 0 and np.isfinite(mx) else 1.0
    ef = s.ef_wake(ps, imp, bk, spacing, 9e6, case["revp"], Ib, 1.3e9, 4.7e-4, case["dt"])
    return ef


def run_single(case, kind, b, data_b, offs_b):
    """single-bunch world: returns result grid (n,n)"""
    s = S()
    n = case["n"]
    s.reset(n, 1)
    q0, q1, p0, p1 = extents(case)
    a = s.ps_new(q0, q1, p0, p1, data=data_b[None], qscale=case["qscale"], pscale=case["pscale"])
    o = s.ps_new(q0, q1, p0, p1, qscale=case["qscale"], pscale=case["pscale"])
    m = build_map(s, kind, case, a, o, 1, offsets=offs_b)
    s.map_apply(m)
    return s.ps_data(o)[0].copy()


def run_case(case):
    s = S()
    n, nb, kind = case["n"], case["nb"], case["kind"]
    q0, q1, p0, p1 = extents(case)
    fill = np.full(nb, 1.0 / nb, np.float32)
    data = gen_data(case, nb, n)
    offs = gen_offsets(case, nb, n)
    differ_data = any((data[b] != data[0]).any() for b in range(1, nb))
    differ_offs = any((offs[b] != offs[0]).any() for b in range(1, nb))
    cls = [kind, "it%d" % case["it"], "nb%d" % nb if nb <= 5 else "nb_long"]
    if kind == "chain":
        return run_chain(case, data)
    s.reset(n, nb)
    a = s.ps_new(q0, q1, p0, p1, filling=fill, data=data, qscale=case["qscale"], pscale=case["pscale"])
    o = s.ps_new(q0, q1, p0, p1, filling=fill, qscale=case["qscale"], pscale=case["pscale"])
    single_kind = kind
    if kind == "wake":
        s.ps_op(a, "updateX")
        ef = make_field(s, a, case, nb, n)
        m = s.map_wake(a, o, ef, case["it"])
        s.map_wake_update(m)
        offs = s.ef_get(ef, "wake").copy()          # potential the field computed for each bunch
        forc = s.map_force(m, nb * n).reshape(nb, n)
        if (gen.bits(forc) != gen.bits(offs)).any():
            return Outcome(False, True, classes=cls, msg="wake map displacement field differs from the field's wake potential", sig="wake:copy")
        differ_offs = any((offs[b] != offs[0]).any() for b in range(1, nb))
        single_kind = "kick_y"
    elif kind == "kick_x":
        # KickMap along x shares one field between bunches (main: the drift); property speaks of per-bunch fields
        # only for the wake kick, so the generic x-kick gets the same block for every bunch
        offs[:] = offs[0]
        m = build_map(s, kind, case, a, o, nb, offsets=offs.reshape(-1))
        differ_offs = True
    else:
        m = build_map(s, kind, case, a, o, nb, offsets=offs.reshape(-1))
        if kind not in ("kick_y",):
            differ_offs = True
    s.map_apply(m)
    multi = s.ps_data(o).copy()
    if kind in ("rf_lin", "rf_sin", "drift"):
        offs = None
    # every bunch for small trains; for long trains a sample incl. the first, the last and both sides of 256
    which = list(range(nb)) if nb <= 6 else sorted(set([0, 1, nb - 1, nb // 2, min(nb - 1, 255), min(nb - 1, 256)] + [int(x) for x in gen.rng(case["dseed"] + 9).integers(0, nb, 3)]))
    for b in which:
        ob = None if offs is None else offs[b].copy()
        single = run_single(case, single_kind, b, data[b], ob)
        if (gen.bits(multi[b]) != gen.bits(single)).any():
            bad = np.argwhere(gen.bits(multi[b]) != gen.bits(single))[0]
            return Outcome(False, differ_data, classes=cls,
                           msg="%s: bunch %d of %d differs from its single-bunch evolution at [x,y]=%s: multi %r single %r (n=%d it=%d)" %
                           (kind, b, nb, bad.tolist(), float(multi[b][tuple(bad)]), float(single[tuple(bad)]), n, case["it"]),
                           sig="c08:%s:%s" % (kind, "bunch0" if b == 0 else "bunch>=1"))
    return Outcome(True, bool(differ_data and differ_offs), classes=cls)


def run_chain(case, data):
    """1-5 full steps wake -> RF -> drift -> FP on the train, vs. every bunch alone kicked by the potential the
    multi-bunch field computed for it"""
    s = S()
    n, nb, it = case["n"], case["nb"], case["it"]
    q0, q1, p0, p1 = extents(case)
    fill = np.full(nb, 1.0 / nb, np.float32)
    cls = ["chain", "it%d" % it, "nb%d" % nb]
    s.reset(n, nb)
    kw = dict(qscale=case["qscale"], pscale=case["pscale"])
    g1 = s.ps_new(q0, q1, p0, p1, filling=fill, data=data, **kw)
    g2 = s.ps_new(q0, q1, p0, p1, filling=fill, **kw)
    g3 = s.ps_new(q0, q1, p0, p1, filling=fill, **kw)
    s.ps_op(g1, "updateX")
    ef = make_field(s, g1, case, nb, n)
    wm = s.map_wake(g1, g2, ef, it)
    rf = s.map_rf_linear(g2, g1, case["angle"], 5e8, it)
    dr = s.map_drift(g1, g3, case["slip"], 1.3e9, it)
    fp = s.map_fp(g3, g1, case["fptype"], 0, case["e1"], case["deriv"])
    pots = []
    for k in range(case["steps"]):
        s.map_wake_update(wm)
        pots.append(s.ef_get(ef, "wake").copy())
        for m in (wm, rf, dr, fp):
            s.map_apply(m)
        s.ps_op(g1, "updateX")
    multi = s.ps_data(g1).copy()
    for b in range(nb):
        s.reset(n, 1)
        h1 = s.ps_new(q0, q1, p0, p1, data=data[b][None], **kw)
        h2 = s.ps_new(q0, q1, p0, p1, **kw)
        h3 = s.ps_new(q0, q1, p0, p1, **kw)
        wk = s.map_kick(h1, h2, it, 1)
        rf = s.map_rf_linear(h2, h1, case["angle"], 5e8, it)
        dr = s.map_drift(h1, h3, case["slip"], 1.3e9, it)
        fp = s.map_fp(h3, h1, case["fptype"], 0, case["e1"], case["deriv"])
        for k in range(case["steps"]):
            s.map_set_offset(wk, pots[k][b].copy())
            for m in (wk, rf, dr, fp):
                s.map_apply(m)
        single = s.ps_data(h1)[0].copy()
        if (gen.bits(multi[b]) != gen.bits(single)).any():
            d = np.abs(multi[b].astype(np.float64) - single).max()
            return Outcome(False, True, classes=cls,
                           msg="chain of %d steps: bunch %d of %d differs from its single-bunch evolution (max |diff| %.3g, n=%d it=%d)" %
                           (case["steps"], b, nb, d, n, it), sig="c08:chain:%s" % ("bunch0" if b == 0 else "bunch>=1"))
    differ = any((data[b] != data[0]).any() for b in range(1, nb))
    return Outcome(True, bool(differ), classes=cls)


@st.composite
def cases(draw):
    kind = draw(st.sampled_from(MAPKINDS))
    n = draw(st.integers(8, 48))
    nb = draw(st.integers(2, 5))
    if kind not in ("wake", "chain") and draw(st.integers(0, 11)) == 0:
        # "for all bunch counts": long trains on a small grid (fully filled rings have hundreds of bunches)
        nb = draw(st.sampled_from([17, 64, 255, 256, 257, 300]))
        n = draw(st.integers(8, 12))
    elif kind not in ("wake", "chain") and draw(st.integers(0, 15)) == 0:
        # production-size grid (the default is 256), two bunches
        nb = 2
        n = draw(st.sampled_from([255, 256, 257, 300]))
    it = draw(st.sampled_from([1, 2, 3, 4]))
    c = dict(kind=kind, n=n, nb=nb, it=it, dseed=draw(gen.seeds()),
             dkind=draw(st.sampled_from(["noise", "pos", "altsign", "impulse"])),
             L=draw(st.sampled_from([4.0, 6.0, 8.0])), sx=draw(st.sampled_from([0.0, 0.0, 0.5, -1.25])),
             sy=draw(st.sampled_from([0.0, 0.0, -0.75, 1.5])),
             qscale=1.2e-3, pscale=6.11e5,
             amp=gen.f32(draw(st.floats(0.1, n / 2 - 1))), intoffs=draw(st.booleans()) and draw(st.booleans()),
             identical=draw(st.integers(0, 7)) == 0, sameblocks=draw(st.integers(0, 9)) == 0,
             angle=gen.f32(draw(st.floats(1e-3, 0.4))), revpart=gen.f32(draw(st.floats(1e-4, 1e-2))),
             V=gen.f32(draw(st.floats(2e5, 2e6))), V0=gen.f32(draw(st.floats(0, 1e5))),
             slip=[gen.f32(draw(st.floats(1e-3, 0.4))), gen.f32(draw(st.floats(-1e-2, 1e-2))), 0.0],
             fptype=draw(st.sampled_from([0, 1, 2, 3])), deriv=draw(st.sampled_from([3, 4])),
             e1=gen.f32(draw(st.floats(1e-5, 0.05))))
    if kind in ("wake", "chain"):
        n, buckets, spacing, N, nbuckets = gen.field_layout(draw, nb)
        c["n"] = n
        c["amp"] = min(c["amp"], gen.f32(n / 3.0))
        c["buckets"], c["spacing"], c["N"] = buckets, spacing, N
        c["revp"] = 1e-3
        c["dt"] = 1e-10
        c["steps"] = draw(st.integers(1, 5))
    return c


# ------------------------------------------------------------------ CLI corollary: identical bunches, empty buckets
def run_cli(case):
    import os
    from vlib import cli, cfggen
    wd = cli.scratch("c08")
    o = dict(case["opts"])
    a = case["current"]
    pats = {"single": [a], "pair": [a, a], "gap": case["gap_pattern"]}
    H = {}
    for name, pat in pats.items():
        oo = dict(o, BunchCurrent=pat, RoundPadding=True)
        if len(pat) > 1:
            oo["alpha0"] = case["alpha0"]
        else:
            oo["alpha0"] = case["alpha0"]
        r = cli.run(["-c", "/dev/null", "-o", name + ".h5"] + cli.optargs(oo), wd)
        if r.rc != 0 or "Finished." not in r.out:
            return Outcome(False, True, ["cli"], "run %s failed: %s %s" % (name, r.out[-300:], r.err[-300:]), sig="c08:cli:runfail")
        H[name] = cli.H5(os.path.join(wd, name + ".h5"))
    cls = ["cli", "it%d" % o["InterpolationPoints"]]
    nontriv = True
    per = ["/BunchLength/data", "/BunchPosition/data", "/EnergySpread/data", "/EnergyAverage/data"]
    for name in ("pair", "gap"):
        h = H[name]
        for ds in per + ["/BunchProfile/data", "/EnergyProfile/data", "/PhaseSpace/data", "/BunchPopulation/data"]:
            x = h[ds]
            if (gen.bits(x[:, 0]) != gen.bits(x[:, 1])).any():
                return Outcome(False, nontriv, cls, "two identical bunches without impedance differ in %s (filling %s)" % (ds, pats[name]), sig="c08:cli:identical:%s" % ds)
        for ds in per:
            if (gen.bits(h[ds][:, 0]) != gen.bits(H["single"][ds][:, 0])).any():
                dmax = np.abs(h[ds][:, 0].astype(np.float64) - H["single"][ds][:, 0]).max()
                return Outcome(False, nontriv, cls, "%s of a bunch in the train (filling %s) differs from the single-bunch run (max diff %.3g)" % (ds, pats[name], dmax), sig="c08:cli:single:%s" % ds)
        ps2, ps1 = h["/PhaseSpace/data"][:, 0].astype(np.float64) * 2, H["single"]["/PhaseSpace/data"][:, 0].astype(np.float64)
        if np.abs(ps2 - ps1).max() > 3e-7 * np.abs(ps1).max():
            return Outcome(False, nontriv, cls, "phase space of a bunch in the train (filling %s) is not half the single-bunch phase space: max diff %.3g" % (pats[name], np.abs(ps2 - ps1).max()), sig="c08:cli:single:ps")
    for ds in per + ["/PhaseSpace/data"]:
        if (gen.bits(H["gap"][ds]) != gen.bits(H["pair"][ds])).any():
            return Outcome(False, nontriv, cls, "empty buckets (%s vs %s) change %s" % (pats["gap"], pats["pair"], ds), sig="c08:cli:emptybucket:%s" % ds)
    return Outcome(True, nontriv, cls)


@st.composite
def cli_cases(draw):
    from vlib import cfggen
    o = draw(cfggen.base_config(nmin=16, nmax=40, min_laststep=4, max_laststep=40, multibunch=False, wake=("none",)))
    o.pop("BunchCurrent", None)
    o.pop("padding", None)
    o["outstep"] = draw(st.sampled_from([1, 2, 5]))
    o["SavePhaseSpace"] = 1
    a = gen.f32(draw(st.floats(2e-4, 3e-3)))
    nempty = draw(st.integers(1, 2))
    pos = draw(st.integers(0, nempty))
    gap = [a] + [0.0] * nempty + [a] if pos else [0.0] * nempty + [a, a]
    if draw(st.booleans()):
        gap = [a, a] + [0.0] * nempty
    sps = draw(st.floats(1.1, 2.0))
    alpha0 = gen.f32(cfggen.alpha0_for_spacing(sps, dict(o, BunchCurrent=[a, a], RoundPadding=True)))
    return dict(opts=o, current=a, gap_pattern=gap, alpha0=alpha0)


def subs(tier):
    return [Sub("maps", cases(), run_case, quick=12000, thorough=500000),
            Sub("cli", cli_cases(), run_cli, quick=96, thorough=2000, needs=("rel", "h5x", "shim"), shrink_budget=16)]
