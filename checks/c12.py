"""C12 — observing the simulation does not change it; equal inputs give equal outputs (DESIGN.md §3 C12)."""
import os
import numpy as np
from hypothesis import strategies as st

from vlib import gen, cli, cfggen
from vlib.driver import Outcome, Sub

LEVEL = "exploration"
RULE = ("families of 3-5 real runs that differ only in observation: outstep in {0,1,2,5,17,laststep}, SavePhaseSpace in {0,1,2}, "
        "tracking file absent / 1-20 particles with FPTrack 0..3, verbose, output file name, plus one exact repetition; base "
        "configuration generated (grid, steps, bunches, impedance, shifts, renormalisation, interpolation).  Oracle: final "
        "phase space and every record with a common time value bit-identical across the family.  non-trivial = two members "
        "with different output step sets, laststep >= 10 and a wake, renormalisation or RF phase modulation active; distinct = case "
        "hash.  One configuration in ten adds a deterministic RF phase modulation to a short run, three in ten are long runs "
        "(1030..2600 steps, two thirds of them with phase modulation) with sparse cadences {100,150,333,1000,1024,1025,never}")
ASSUMPTIONS = ["all members of a family use one FFTW wisdom directory that was warmed by a discarded run"]
TOLERANCES = {"all comparisons": "bitwise"}
PER_RECORD = ["/BunchProfile/data", "/EnergyProfile/data", "/BunchLength/data", "/BunchPosition/data", "/EnergySpread/data",
              "/EnergyAverage/data", "/BunchPopulation/data", "/WakePotential/data", "/CSR/Spectrum/data", "/CSR/Intensity/data"]


def run_member(base, var, wd, idx):
    o = dict(base)
    o["outstep"] = var["outstep"]
    o["SavePhaseSpace"] = var["save"]
    o["verbose"] = var["verbose"]
    o["FPTrack"] = var["fptrack"]
    name = var["name"] + ".h5"
    if var["track"] == "devnull":
        o["tracking"] = "/dev/null"          # accepted spelling of "no tracking"
    elif var["track"]:
        tf = os.path.join(wd, "track%d.txt" % idx)
        with open(tf, "w") as f:
            for q, p in var["track"]:
                f.write("%r %r\n" % (q, p))
        o["tracking"] = "track%d.txt" % idx
    args = ["-c", "/dev/null", "-o", name] + cli.optargs(o)
    r = cli.run(args, wd)
    return r, name


def steps_of(h, steps):
    t = h["/Info/AxisValues_t"].astype(np.float64)
    return np.rint(t * steps).astype(int)


def run_case(case):
    wd = cli.scratch("c12")
    base = dict(case["opts"])
    d = cfggen.derive(base)
    fam = case["family"]
    results = []
    if case.get("startleg"):
        # all members start from the same phase-space record of an earlier results file (single bunch)
        leg = dict(base, rotations=float(np.float32((case["startleg"] - 0.5) / d["steps"])), outstep=0, SavePhaseSpace=0)
        r0 = cli.run(["-c", "/dev/null", "-o", "s.h5"] + cli.optargs(leg), wd)
        if r0.rc != 0 or "Finished." not in r0.out:
            return Outcome(False, True, ["crash"], "first leg failed rc=%s: %s %s" % (r0.rc, r0.out[-300:], r0.err[-300:]), sig="c12:runfail")
        base["InitialDistFile"] = "s.h5"
    # warm the wisdom with a discarded run if this worker has never planned these lengths
    r0, _ = run_member(base, dict(fam[0], name="warm"), wd, 99)
    if r0.rc != 0:
        return Outcome(False, True, ["crash"], "run failed rc=%s: %s %s" % (r0.rc, r0.out[-300:], r0.err[-300:]), sig="c12:runfail")
    for i, var in enumerate(fam):
        r, name = run_member(base, var, wd, i)
        if r.rc != 0 or "Finished." not in r.out:
            return Outcome(False, True, ["crash"], "family member %d failed rc=%s: %s %s" % (i, r.rc, r.out[-300:], r.err[-300:]), sig="c12:runfail")
        h = cli.H5(os.path.join(wd, name))
        if not h.ok:
            return Outcome(False, True, ["unreadable"], "result file unreadable: " + h.err, sig="c12:unreadable")
        results.append(h)
    steps = d["steps"]
    sets = [tuple(steps_of(h, steps)) for h in results]
    wake_or_renorm = ("/WakePotential/data" in results[0].ds and results[0]["/WakePotential/data"].size > 0) or base.get("RenormalizeCharge", 0) > 0
    nontriv = bool(len(set(sets)) > 1 and d["laststep"] >= 10 and (wake_or_renorm or base.get("RFPhaseModAmplitude", 0) > 0))
    cls = (["from_results_file"] if case.get("startleg") else []) + ["long" if d["laststep"] > 1024 else "short", "rfmod" if base.get("RFPhaseModAmplitude", 0) > 0 else "staticrf",
           "nb%d" % d["nb"], "wake" if "/WakePotential/data" in results[0].ds and results[0]["/WakePotential/data"].size else "nowake",
           "renorm" if base.get("RenormalizeCharge", 0) > 0 else "norenorm"]
    ref = results[0]
    for i in range(1, len(results)):
        h = results[i]
        desc = "members 0 %s and %d %s" % ({k: fam[0][k] for k in ("outstep", "save", "fptrack", "verbose")}, i,
                                            {k: fam[i][k] for k in ("outstep", "save", "fptrack", "verbose")})
        a, b = ref["/PhaseSpace/data"], h["/PhaseSpace/data"]
        if a.shape[0] == 0 or b.shape[0] == 0 or (gen.bits(a[-1]) != gen.bits(b[-1])).any():
            dm = float(np.abs(a[-1].astype(np.float64) - b[-1]).max()) if a.shape[0] and b.shape[0] else -1
            return Outcome(False, nontriv, cls, "final phase space differs (max |diff| %.3g) between %s; base %s" % (dm, desc, base), sig="c12:final_ps")
        sa, sb = steps_of(ref, steps), steps_of(h, steps)
        common = sorted(set(sa.tolist()) & set(sb.tolist()))
        for st_ in common:
            ia, ib = int(np.argwhere(sa == st_)[0][0]), int(np.argwhere(sb == st_)[0][0])
            for ds in PER_RECORD:
                if ds not in ref.ds or ds not in h.ds or ref[ds].shape[0] <= ia or h[ds].shape[0] <= ib:
                    continue
                if (gen.bits(ref[ds][ia]) != gen.bits(h[ds][ib])).any():
                    return Outcome(False, nontriv, cls, "%s at step %d differs between %s; base %s" % (ds, st_, desc, base), sig="c12:record:%s" % ds)
        pa = np.rint(ref["/PhaseSpace/axis0"].astype(np.float64) * steps).astype(int)
        pb = np.rint(h["/PhaseSpace/axis0"].astype(np.float64) * steps).astype(int)
        for st_ in sorted(set(pa.tolist()) & set(pb.tolist())):
            ia, ib = int(np.argwhere(pa == st_)[0][0]), int(np.argwhere(pb == st_)[0][0])
            if (gen.bits(a[ia]) != gen.bits(b[ib])).any():
                # SavePhaseSpace=0 stores an "initial conditions" snapshot before the loop, i.e. before the renormalisation
                # that step 0 performs when RenormalizeCharge > 0; a member that saves phase spaces in the loop stores step 0
                # after it.  That documented ordering is allowed as one common factor per bunch within 1e-6; nothing else.
                if st_ == 0 and (fam[0]["save"] == 0) != (fam[i]["save"] == 0) and base.get("RenormalizeCharge", 0) > 0:
                    x, y = a[ia].astype(np.float64), b[ib].astype(np.float64)
                    okf = True
                    for bb in range(x.shape[0]):
                        sx_, sy_ = x[bb].sum(), y[bb].sum()
                        fct = sy_ / sx_ if sx_ else 1.0
                        # (a record loaded from a results file carries whatever charge it was stored with: the factor is
                        # then 1/charge instead of a rounding-level correction; proportionality is still required)
                        if (not (1e-3 < fct < 1e3) if case.get("startleg") else abs(fct - 1) > 1e-6) or np.abs(y[bb] - fct * x[bb]).max() > 3e-7 * np.abs(x[bb]).max():
                            okf = False
                    if okf:
                        cls.append("initial_snapshot_vs_step0")
                        continue
                return Outcome(False, nontriv, cls, "/PhaseSpace/data at step %d differs between %s" % (st_, desc), sig="c12:record:ps")
        if fam[i].get("repeat_of") == 0:
            for ds in ref.ds:
                if ds in ("/Info/Inovesa_build",):
                    continue
                if ref[ds].shape != h[ds].shape or (ref[ds].view(np.uint8) != h[ds].view(np.uint8)).any():
                    if ds == "/Particles/data" and fam[0]["fptrack"] == 3:
                        continue
                    return Outcome(False, nontriv, cls, "exact repetition differs in %s" % ds, sig="c12:repeat:%s" % ds)
            cls.append("repeat")
    return Outcome(True, nontriv, cls)


@st.composite
def cases(draw):
    base = draw(cfggen.base_config(nmin=16, nmax=48, min_laststep=10, max_laststep=40, big=24, via_rev=6, machine=4))
    # deterministic RF includes a configured phase modulation (no noise); long runs (> 1024 steps) with sparse output reach
    # whatever is buffered, chunked or flushed per output block (round-3 seed C12c: modulation table refilled per 1024 steps)
    mode = draw(st.sampled_from(["plain"] * 6 + ["rfmod_short", "rfmod_long", "rfmod_long", "long"]))
    long_out = []
    if mode != "plain":
        if mode.startswith("rfmod"):
            base["RFPhaseModAmplitude"] = draw(st.sampled_from([0.5, 2.0, 10.0]))
            base["RFPhaseModFrequency"] = draw(st.sampled_from([3e3, 1.7e4, 4.1e4]))
        if mode in ("rfmod_long", "long"):
            base.pop("StepsPerRevolution", None)
            if base["GridSize"] > 48:
                base["GridSize"] = 32
            steps = draw(st.integers(40, 200))
            base["StepsPerTs"] = steps
            Lw = draw(st.integers(1030, 2600))
            base["rotations"] = float(np.float32((Lw - 0.5) / steps))
            long_out = [100, 150, 333, 1000, 1024, 1025]
    d = cfggen.derive(base)
    L = d["laststep"]

    def variant(i):
        ntr = draw(st.sampled_from([0, 0, 1, 5, 20]))
        track = [[draw(st.floats(-5, 5)), draw(st.floats(-5, 5))] for _ in range(ntr)]
        if ntr == 0 and draw(st.booleans()):
            track = "devnull"
        return dict(outstep=draw(st.sampled_from([0, 1, 2, 5, 17, max(L, 1)] + long_out + ([0] if long_out else []))), save=draw(st.sampled_from([0, 1, 2])),
                    track=track, fptrack=draw(st.sampled_from([0, 1, 2, 3])), verbose=draw(st.booleans()),
                    name=draw(st.sampled_from(["out", "res", "sub_x"])) + str(i))
    fam = [variant(i) for i in range(draw(st.integers(2, 4)))]
    rep = dict(fam[0])
    rep["name"] = "rep"
    rep["repeat_of"] = 0
    fam.append(rep)
    c = dict(opts=base, family=fam)
    if len(base.get("BunchCurrent", [1])) == 1 and draw(st.integers(0, 3)) == 0:
        c["startleg"] = draw(st.integers(1, 10))
    return c


def subs(tier):
    return [Sub("family", cases(), run_case, quick=384, thorough=6000, needs=("rel", "h5x"), shrink_budget=40,
                max_wall={"quick": 420, "thorough": 3000})]
