"""C15 — tracked particles follow the flow of the distribution and never leave the grid (DESIGN.md §3 C15)."""
import os
import numpy as np
from hypothesis import strategies as st

from vlib import gen
from vlib.driver import Outcome, Sub
from vlib import shim as shimmod

LEVEL = "exploration"
RULE = ("blob: kick maps (generic both axes, RF, drift, wake, modulated/noisy RF after 0-6 earlier steps), interpolation order 2..4, arbitrary displacement fields, "
        "particle anywhere on the grid incl. integer coordinates and edges; a non-negative blob with its centroid on the "
        "particle is built on the two neighbouring rows with masses (1-f, f); non-trivial = f in [0.05,0.95] and the two "
        "rows' offsets differ.  ingrid: sequences of 1-200 steps {wake kick, RF kick, drift, Fokker-Planck with tracking "
        "model 0..3, new displacement field} over 1-50 particles started anywhere in [0,n-1]^2 (edges, corners); invariant "
        "after every step: finite and inside [0,n-1]^2; non-trivial = some particle within 2 cells of a border at some step. "
        "ensemble: 4000 particles from the unit Gaussian under RF+drift+stochastic Fokker-Planck for 3 damping times with "
        "the PRNG seeded through the guarded hook; non-trivial = e1/theta >= 0.01")
ASSUMPTIONS = ["first moments are preserved exactly by interpolation of order >= 2 for interior data (C02)",
               "5-sigma statistical thresholds: false-alarm probability < 1e-6 per case; cases are pure functions of the drawn seed"]
TOLERANCES = {"blob_centroid_vs_particle": "2e-5*(1+|offset|)", "ensemble_mean": "5/sqrt(N)", "ensemble_sigma": "5/sqrt(2N) + e1/2"}


def S():
    return shimmod.get()


def grids(s, case, data=None):
    L, sx, sy = case["L"], case.get("sx", 0.0), case.get("sy", 0.0)
    kw = dict(qscale=case.get("qscale", 1.2e-3), pscale=case.get("pscale", 6.11e5))
    a = s.ps_new(-L + sx, L + sx, -L + sy, L + sy, data=data, **kw)
    b = s.ps_new(-L + sx, L + sx, -L + sy, L + sy, **kw)
    return a, b


def build_kickmap(s, case, a, b, r):
    """returns (map, axis, offsets[n])"""
    n, it, kind = case["n"], case["it"], case["kind"]
    if kind == "kick":
        axis = case["axis"]
        m = s.map_kick(a, b, it, axis)
        offs = np.array(case["offsets"], np.float32)
        if case.get("ramp"):
            # a long history on the same map: the field creeps to its final value in K tiny steps (a slowly growing wake, a
            # slow RF modulation).  The particle reads the current field; the charge must, too (round-4 seed C15d: rows
            # whose field changed by less than a rounding-sized tolerance since the LAST call were not rebuilt)
            rp = case["ramp"]
            d = (gen.rng(rp["seed"]).uniform(-1, 1, n) * rp["amp"]).astype(np.float32)
            s.map_ramp_offset(m, offs - d, offs, rp["K"])
        else:
            s.map_set_offset(m, offs)
        return m, axis, s.map_force(m, n)
    if kind == "rf_lin":
        m = s.map_rf_linear(a, b, case["angle"], 5e8, it)
        return m, 1, s.map_force(m, n)
    if kind == "rf_sin":
        m = s.map_rf_sin(a, b, 1e-3, case["V"], 5e8, case["V0"], it)
        return m, 1, s.map_force(m, n)
    if kind == "drift":
        m = s.map_drift(a, b, case["slip"], 1.3e9, it)
        return m, 0, s.map_force(m, n)
    if kind in ("dynrf_lin", "dynrf_sin"):
        # modulated / noisy RF: the kick changes from step to step.  'pre' steps are executed first (apply, then applyTo, as
        # the main loop does); the blob test then rides on step number 'pre'
        def mk():
            os.environ["INOVESA_VERIF_PRNG_SEED"] = str(case["prng"])
            try:
                if kind == "dynrf_lin":
                    return s.map_dynrf_linear(a, b, case["angle"], 1e-3, 5e8, case["pspread"], case["aspread"], case["modampl"],
                                              case["modstep"], case["pre"] + 2, it)
                return s.map_dynrf_sin(a, b, 1e-3, case["V"], 5e8, case["V0"], case["pspread"], case["aspread"], case["modampl"],
                                       case["modstep"], case["pre"] + 2, it)
            finally:
                os.environ.pop("INOVESA_VERIF_PRNG_SEED", None)
        dry = mk()
        for _ in range(case["pre"] + 1):
            s.map_apply(dry)
        offs = s.map_force(dry, n)          # only used to place the blob away from the edges and to scale the tolerance
        m = mk()
        p0 = np.array([[n / 2.0, n / 2.0]], np.float32)
        for _ in range(case["pre"]):
            s.map_apply(m)
            s.map_apply_to(m, p0)
        return m, 1, offs
    if kind == "wake":
        prov = np.zeros((1, n, n), np.float32)
        x = np.arange(n)
        prov[0] = np.outer(np.exp(-0.5 * ((x - n / 2) / (n / 8)) ** 2), np.exp(-0.5 * ((x - n / 2) / (n / 8)) ** 2))
        s.ps_data(a)[:] = prov
        s.ps_op(a, "updateX")
        N = case["N"]
        z = (r.standard_normal(N) + 1j * r.standard_normal(N)).astype(np.complex64)
        imp = s.imp_array(z, 1e12)
        ef = s.ef_wake(a, imp, [0], 0, 9e6, 1e-3, 1.0, 1.3e9, 4.7e-4, 1e-10)
        s.ef_do(ef, "wake")
        mx = float(np.abs(s.ef_get(ef, "wake")).max())
        ef = s.ef_wake(a, imp, [0], 0, 9e6, 1e-3, case["amp"] / mx if mx > 0 else 1.0, 1.3e9, 4.7e-4, 1e-10)
        m = s.map_wake(a, b, ef, it)
        s.map_wake_update(m)
        return m, 1, s.map_force(m, n)
    raise ValueError(kind)


def run_blob(case):
    s = S()
    n, it = case["n"], case["it"]
    s.reset(n, 1)
    r = gen.rng(case["dseed"])
    a, b = grids(s, case)
    m, axis, offs = build_kickmap(s, case, a, b, r)
    # particle: 'along' = coordinate in kick direction, 'across' = the other one
    across = np.float32(case["across"])
    rr = int(np.floor(across))
    f = float(across) - rr
    cls = [case["kind"], "it%d" % it, "axis%d" % axis] + (["ramp_history"] if case.get("ramp") else [])
    if rr + 1 > n - 1:
        # on the last row there is no second row: the blob lives on row rr only
        rows = [(rr, 1.0)]
    else:
        rows = [(rr, 1.0 - f), (rr + 1, f)]
    marg = max(int(np.ceil(abs(float(offs[q])))) for q, _ in rows) + it + 1
    lo, hi = marg + 3, n - 1 - marg - 3
    if hi < lo:
        return Outcome(True, False, cls, discard=True)
    along = np.float32(lo + case["along_frac"] * (hi - lo))
    ja = int(np.floor(along))
    fa = float(along) - ja
    kern = np.array(case["kernel"], np.float64)
    kern = np.concatenate([kern[::-1], kern[1:]]) if len(kern) > 1 else kern       # symmetric: keeps the centroid
    base = np.zeros(n)
    half = len(kern) // 2
    for d, kv in enumerate(kern):
        base[ja - half + d] += kv * (1 - fa)
        base[ja + 1 - half + d] += kv * fa
    data = np.zeros((1, n, n), np.float32)
    for q, mass in rows:
        line = (base * mass).astype(np.float32)
        if axis == 1:
            data[0, q, :] = line
        else:
            data[0, :, q] = line
    s.ps_data(a)[:] = data
    s.map_apply(m)
    out = s.ps_data(b)[0].astype(np.float64)
    d64 = data[0].astype(np.float64)
    c = np.arange(n, dtype=np.float64)
    if axis == 1:
        cin = (d64 * c[None, :]).sum() / d64.sum()
        cout = (out * c[None, :]).sum() / out.sum()
    else:
        cin = (d64 * c[:, None]).sum() / d64.sum()
        cout = (out * c[:, None]).sum() / out.sum()
    pos = np.array([[along, across]], np.float32) if axis == 0 else np.array([[across, along]], np.float32)
    new = s.map_apply_to(m, pos)[0]
    pa_new = float(new[0] if axis == 0 else new[1])
    pc_new = float(new[1] if axis == 0 else new[0])
    dpart = pa_new - float(along)
    dcent = cout - cin
    omax = max(abs(float(offs[q])) for q, _ in rows)
    nontriv = bool(0.05 <= f <= 0.95 and len(rows) == 2 and offs[rows[0][0]] != offs[rows[1][0]])
    if len(rows) == 1:
        cls.append("lastrow")
    if float(across) == rr:
        cls.append("integer_across")
    met = {"blob_dev": abs(dpart - dcent) / (1 + omax)}
    if pc_new != float(across):
        return Outcome(False, nontriv, cls, "kick along axis %d changed the particle's other coordinate: %r -> %r" % (axis, float(across), pc_new), sig="c15:blob:across")
    if abs(dpart - dcent) > 2e-5 * (1 + omax):
        return Outcome(False, nontriv, cls, "%s (axis %d, it=%d, n=%d): particle at along=%.4f across=%.4f moved by %.6f, the charge around it by %.6f (row offsets %s)" %
                       (case["kind"], axis, it, n, float(along), float(across), dpart, dcent, [float(offs[q]) for q, _ in rows]),
                       sig=("c15:blob:lastrow" if len(rows) == 1 else "c15:blob:%s:interior" % case["kind"]), metrics=met)
    # the whole row moves by one displacement: a particle elsewhere on the same row - in particular exactly on the first
    # or last cell of the kicked coordinate, where an earlier step may have clamped it - must move by the same amount as
    # the particle in the interior, as long as that keeps it on the grid (round-5 seed C15e: a particle sitting exactly on
    # n-1 was never kicked again)
    for a2 in case.get("along_extra", []):
        along2 = np.float32(a2 if a2 >= 0 else (n - 1 + a2))
        target = float(along2) + dpart
        if not (1.001 <= target <= n - 1.001):
            continue
        pos2 = np.array([[along2, across]], np.float32) if axis == 0 else np.array([[across, along2]], np.float32)
        new2 = s.map_apply_to(m, pos2)[0]
        got = float(new2[0] if axis == 0 else new2[1])
        cls.append("edge_along")
        if abs(got - target) > 2e-5 * (1 + omax) + 1e-6 * n:
            return Outcome(False, nontriv, cls, "%s (axis %d, n=%d): a particle at along=%.6f across=%.4f moved to %.6f, the particle at along=%.4f on the same row moved by %.6f (expected %.6f)" %
                           (case["kind"], axis, n, float(along2), float(across), got, float(along), dpart, target), sig="c15:blob:edge_along", metrics=met)
    return Outcome(True, nontriv, cls, metrics=met)


@st.composite
def blob_cases(draw):
    kind = draw(st.sampled_from(["kick", "kick", "rf_lin", "rf_sin", "drift", "wake", "dynrf_lin", "dynrf_sin"]))
    n = draw(st.integers(24, 64))
    it = draw(st.sampled_from([2, 3, 4]))
    c = dict(kind=kind, n=n, it=it, dseed=draw(gen.seeds()), L=draw(st.sampled_from([4.0, 6.0])),
             sx=draw(st.sampled_from([0.0, 0.5])), sy=draw(st.sampled_from([0.0, -0.75])))
    lim = 3.0
    if kind == "kick":
        c["axis"] = draw(st.sampled_from([0, 1]))
        c["offsets"] = [gen.offset_mixture(draw, lim) for _ in range(n)]
        if draw(st.integers(0, 3)) == 0:
            amp = draw(st.sampled_from([0.05, 0.2, 0.5]))
            eps = draw(st.sampled_from([1e-6, 3e-6, 1e-5, 1e-4]))
            c["ramp"] = dict(amp=amp, K=int(min(200000, np.ceil(amp / eps))), seed=draw(st.integers(0, 10000)))
    elif kind in ("rf_lin", "dynrf_lin"):
        c["angle"] = gen.f32(draw(st.floats(1e-3, 0.15)))
    elif kind in ("rf_sin", "dynrf_sin"):
        dp = 2 * c["L"] / (n - 1)
        c["qscale"] = gen.f32(draw(st.floats(1e-3, 2e-2)))
        c["V"] = gen.f32(draw(st.floats(0.2, 3.0)) * dp * 6.11e5 / 1e-3)
        c["V0"] = gen.f32(c["V"] * draw(st.floats(0, 0.2)))
    elif kind == "drift":
        th = draw(st.floats(1e-3, 0.15))
        c["slip"] = [gen.f32(th), gen.f32(th * draw(st.floats(-0.05, 0.05))), 0.0]
    if kind in ("dynrf_lin", "dynrf_sin"):
        mode = draw(st.sampled_from(["mod", "noise", "both"]))
        c["modampl"] = gen.f32(draw(st.floats(1e-3, 0.02 if kind == "dynrf_lin" else 0.5))) if mode != "noise" else 0.0
        c["modstep"] = float(draw(st.floats(0.01, 0.2))) if mode != "noise" else 0.0
        c["pspread"] = gen.f32(draw(st.floats(1e-4, 5e-3 if kind == "dynrf_lin" else 0.1))) if mode != "mod" else 0.0
        c["aspread"] = gen.f32(draw(st.floats(1e-5, 1e-2))) if mode == "both" else 0.0
        c["pre"] = draw(st.integers(0, 6))
        c["prng"] = draw(st.integers(1, 2**31 - 1))
    if kind == "wake":
        c["N"] = draw(st.sampled_from(gen.npool_at_least(n, 512)))
        c["amp"] = gen.f32(draw(st.floats(0.2, 3.0)))
    pos_kind = draw(st.sampled_from(["any"] * 9 + ["integer", "edge0", "edgeN", "near"]))
    if pos_kind == "any":
        c["across"] = gen.f32(draw(st.floats(0, n - 1)))
    elif pos_kind == "integer":
        c["across"] = float(draw(st.integers(0, n - 1)))
    elif pos_kind == "edge0":
        c["across"] = 0.0
    elif pos_kind == "edgeN":
        c["across"] = float(n - 1)
    else:
        c["across"] = gen.f32(draw(st.sampled_from([0.0, float(n - 1)])) + draw(st.floats(-1e-3, 1e-3)))
        c["across"] = min(max(c["across"], 0.0), float(n - 1))
    c["along_frac"] = draw(st.floats(0, 1))
    # further particles on the same row: non-negative = coordinate, negative = distance from the last cell
    c["along_extra"] = draw(st.lists(st.sampled_from([0.0, 1.0, 1.5, -0.0001, -1.0, -1.5, 2.0, -2.0, 0.5]), max_size=3, unique=True)) + \
        ([float(n - 1)] if draw(st.booleans()) else [])
    c["kernel"] = [draw(st.floats(0.1, 1.0)) for _ in range(draw(st.integers(1, 3)))]
    return c


# ------------------------------------------------------------------ (b) in-grid invariant
def run_ingrid(case):
    s = S()
    n, it = case["n"], case["it"]
    s.reset(n, 1)
    os.environ["INOVESA_VERIF_PRNG_SEED"] = str(case["prng"])
    try:
        r = gen.rng(case["dseed"])
        x = np.arange(n)
        g = np.exp(-0.5 * ((x - (n - 1) / 2) / (n / 7)) ** 2)
        data = np.outer(g, g)[None].astype(np.float32)
        L = case["L"]
        kw = dict(qscale=1.2e-3, pscale=6.11e5)
        sy = case.get("sy", 0.0)
        g1 = s.ps_new(-L, L, -L + sy, L + sy, data=data, **kw)
        g2 = s.ps_new(-L, L, -L + sy, L + sy, **kw)
        g3 = s.ps_new(-L, L, -L + sy, L + sy, **kw)
        wk = s.map_kick(g1, g2, it, 1)
        s.map_set_offset(wk, (r.standard_normal(n) * case["wamp"]).astype(np.float32))
        rf = s.map_rf_linear(g2, g1, case["angle"], 5e8, it)
        dr = s.map_drift(g1, g3, [case["angle"], 0.0, 0.0], 1.3e9, it)
        fps = {t: s.map_fp(g3, g1, 3, t, case["e1"], case["deriv"]) for t in set(o[1] for o in case["ops"] if o[0] == "fp")}
    finally:
        os.environ.pop("INOVESA_VERIF_PRNG_SEED", None)
    pts = np.array(case["particles"], np.float32).reshape(-1, 2) * np.float32(n - 1)
    pts = np.clip(pts, 0, n - 1).astype(np.float32)
    near = False
    cls = ["it%d" % it]
    used = set()
    for i, op in enumerate(case["ops"]):
        k = op[0]
        if k == "wake":
            s.map_apply(wk)
            pts = s.map_apply_to(wk, pts)
        elif k == "rf":
            s.map_apply(rf)
            pts = s.map_apply_to(rf, pts)
        elif k == "drift":
            s.map_apply(dr)
            pts = s.map_apply_to(dr, pts)
        elif k == "fp":
            m = fps[op[1]]
            s.map_apply(m)
            for _ in range(op[2]):
                pts = s.map_apply_to(m, pts)
            used.add("fptrack%d" % op[1])
        elif k == "field":
            s.map_set_offset(wk, (gen.rng(op[1]).standard_normal(n) * case["wamp"]).astype(np.float32))
            continue
        ok = np.isfinite(pts).all() and (pts >= 0).all() and (pts <= n - 1).all()
        if not ok:
            j = int(np.argwhere(~(np.isfinite(pts) & (pts >= 0) & (pts <= n - 1)).all(axis=1))[0][0])
            return Outcome(False, True, cls + sorted(used), "after step %d (%s) particle %d is at (%r, %r), outside the grid [0,%d]^2 (e1=%g, n=%d)" %
                           (i, "fp track model %d" % op[1] if k == "fp" else k, j, float(pts[j, 0]), float(pts[j, 1]), n - 1, case["e1"], n),
                           sig="c15:ingrid:%s" % ("fp%d" % op[1] if k == "fp" else k))
        near = near or bool(((pts < 2) | (pts > n - 3)).any())
    return Outcome(True, near, cls + sorted(used))


@st.composite
def ingrid_cases(draw):
    n = draw(st.integers(8, 48))
    nops = draw(st.integers(1, 60))
    ops = []
    for _ in range(nops):
        k = draw(st.sampled_from(["wake", "rf", "drift", "fp", "fp", "field"]))
        if k == "fp":
            ops.append(["fp", draw(st.sampled_from([0, 1, 2, 3, 3])), draw(st.sampled_from([1, 1, 1, 5, 30]))])
        elif k == "field":
            ops.append(["field", draw(st.integers(0, 9999))])
        else:
            ops.append([k])
    npart = draw(st.integers(1, 20))
    parts = []
    for _ in range(npart):
        parts.append([draw(st.sampled_from([0.0, 1.0, 0.5])) if draw(st.booleans()) else draw(st.floats(0, 1)),
                      draw(st.sampled_from([0.0, 1.0, 0.5])) if draw(st.booleans()) else draw(st.floats(0, 1))])
    return dict(n=n, it=draw(st.sampled_from([1, 2, 3, 4])), ops=ops, particles=parts, dseed=draw(gen.seeds()),
                prng=draw(st.integers(1, 2**31 - 1)), L=6.0, sy=draw(st.sampled_from([0.0, 0.0, -1.5, 2.0])),
                angle=gen.f32(draw(st.floats(1e-3, 0.4))), wamp=gen.f32(draw(st.floats(0.0, 3.0))),
                e1=gen.f32(10 ** draw(st.floats(-5, -1))), deriv=draw(st.sampled_from([3, 4])))


# ------------------------------------------------------------------ (c) ensemble statistics
def run_ensemble(case):
    s = S()
    n, it = case["n"], 4
    s.reset(n, 1)
    os.environ["INOVESA_VERIF_PRNG_SEED"] = str(case["prng"])
    try:
        L = 6.0
        sx, sy = case["sx"], case["sy"]
        kw = dict(qscale=1.2e-3, pscale=6.11e5)
        g1 = s.ps_new(-L + sx, L + sx, -L + sy, L + sy, **kw)       # unit Gaussian (zoom 1)
        g2 = s.ps_new(-L + sx, L + sx, -L + sy, L + sy, **kw)
        g3 = s.ps_new(-L + sx, L + sx, -L + sy, L + sy, **kw)
        theta = 2 * np.pi / case["steps"]
        rf = s.map_rf_linear(g1, g2, theta, 5e8, it)
        dr = s.map_drift(g2, g3, [theta, 0.0, 0.0], 1.3e9, it)
        fp = s.map_fp(g3, g1, 3, 3, case["e1"], 4)
    finally:
        os.environ.pop("INOVESA_VERIF_PRNG_SEED", None)
    geom = s.ps_get(g1, "geom")
    dq, dp, zq, zp = (float(v) for v in geom[:4])
    r = gen.rng(case["dseed"])
    N = 4000
    q = r.standard_normal(N)
    p = r.standard_normal(N)
    pts = np.stack([zq + q / dq, zp + p / dp], axis=1).astype(np.float32)
    nsteps = int(np.ceil(3.0 / case["e1"]))
    for _ in range(nsteps):
        pts = s.map_apply_to(rf, pts)
        pts = s.map_apply_to(dr, pts)
        pts = s.map_apply_to(fp, pts)
    if not np.isfinite(pts).all():
        return Outcome(False, True, ["ensemble"], "ensemble coordinates not finite after %d steps" % nsteps, sig="c15:ensemble:nan")
    qq = (pts[:, 0].astype(np.float64) - zq) * dq
    pp = (pts[:, 1].astype(np.float64) - zp) * dp
    mq, mp, sq, sp = qq.mean(), pp.mean(), qq.std(), pp.std()
    tm = 5 / np.sqrt(N)
    ts = 5 / np.sqrt(2 * N) + case["e1"] / 2 + 0.01
    cls = ["ensemble", "shifted" if (sx or sy) else "centred"]
    nontriv = case["e1"] / theta >= 0.01
    met = {"ens_mean": max(abs(mq), abs(mp)) / tm, "ens_sigma": max(abs(sq - 1), abs(sp - 1)) / ts}
    if abs(mq) > tm or abs(mp) > tm:
        return Outcome(False, nontriv, cls, "ensemble mean after %d steps is (q %.4f, p %.4f), equilibrium has 0 +- %.3f (e1=%g, steps/period=%d, grid shift x=%g y=%g)" %
                       (nsteps, mq, mp, tm, case["e1"], case["steps"], sx, sy), sig="c15:ensemble:mean", metrics=met)
    if abs(sq - 1) > ts or abs(sp - 1) > ts:
        return Outcome(False, nontriv, cls, "ensemble width after %d steps is (q %.4f, p %.4f), equilibrium has 1 +- %.3f (e1=%g, steps/period=%d)" %
                       (nsteps, sq, sp, ts, case["e1"], case["steps"]), sig="c15:ensemble:sigma", metrics=met)
    return Outcome(True, nontriv, cls, metrics=met)


@st.composite
def ensemble_cases(draw):
    shifted = draw(st.booleans())
    return dict(n=draw(st.sampled_from([64, 96, 128])), steps=draw(st.integers(30, 300)),
                e1=gen.f32(10 ** draw(st.floats(-2.7, -1.7))), dseed=draw(gen.seeds()), prng=draw(st.integers(1, 2**31 - 1)),
                sx=gen.f32(draw(st.floats(-1, 1))) if shifted else 0.0, sy=gen.f32(draw(st.floats(-1, 1))) if shifted else 0.0)


# ------------------------------------------------------------------ (d) the real program with tracking, sanitizer build
def run_cli(case):
    from vlib import cli, cfggen
    import re
    wd = cli.scratch("c15")
    o = dict(case["opts"])
    d = cfggen.derive(o)
    pq, n = d["pq"], d["n"]
    delta = pq / (n - 1)
    q0 = -pq / 2 - o.get("PhaseSpaceShiftX", 0.0) * delta
    p0 = -pq / 2 - o.get("PhaseSpaceShiftY", 0.0) * delta
    pts = []
    for fx, fy in case["particles"]:
        pts.append((q0 + fx * pq, p0 + fy * pq))
    with open(os.path.join(wd, "t.txt"), "w") as f:
        for q, p in pts:
            f.write("%r %r\n" % (q, p))
    o["tracking"] = "t.txt"
    r = cli.run(["-c", "/dev/null", "-o", "r.h5"] + cli.optargs(o), wd, flavour="san", env={"INOVESA_VERIF_PRNG_SEED": str(case["prng"])})
    cls = ["cli", "fptrack%d" % o["FPTrack"]]
    if re.search(r"AddressSanitizer|runtime error:", r.err) or r.signal:
        lines = [l for l in r.err.splitlines() if "ERROR" in l or "runtime error" in l or " in vfps" in l][:4]
        return Outcome(False, True, cls, "tracking run hit a memory error / undefined behaviour: %s (options %s)" % (" | ".join(lines), o), sig="c15:cli:sanitizer")
    if r.rc != 0 or "Finished." not in r.out:
        return Outcome(False, True, cls, "run failed: %s %s" % (r.out[-300:], r.err[-300:]), sig="c15:cli:runfail")
    h = cli.H5(os.path.join(wd, "r.h5"))
    part = h["/Particles/data"]
    if part.shape[1] != len(pts):
        return Outcome(False, True, cls, "%d particles given, %d stored" % (len(pts), part.shape[1]), sig="c15:cli:count")
    tol = 1e-4 * pq
    bad = ~np.isfinite(part) | (part[..., 0:1] < q0 - tol) | (part[..., 0:1] > q0 + pq + tol)
    badp = ~np.isfinite(part[..., 1]) | (part[..., 1] < p0 - tol) | (part[..., 1] > p0 + pq + tol)
    if bad[..., 0].any() or badp.any():
        idx = np.argwhere(bad[..., 0] | badp)[0]
        return Outcome(False, True, cls, "stored coordinate of particle %d at record %d is %s, outside the grid [%g,%g]x[%g,%g]" %
                       (idx[1], idx[0], part[idx[0], idx[1]].tolist(), q0, q0 + pq, p0, p0 + pq), sig="c15:cli:outside")
    edge = any(fx in (0.0, 1.0) or fy in (0.0, 1.0) for fx, fy in case["particles"])
    return Outcome(True, bool(edge), cls + (["edge"] if edge else []))


@st.composite
def cli_cases(draw):
    from vlib import cfggen
    o = draw(cfggen.base_config(nmin=12, nmax=32, min_laststep=3, max_laststep=40, multibunch=False))
    o["FPTrack"] = draw(st.sampled_from([0, 1, 2, 3, 3]))
    o["outstep"] = draw(st.sampled_from([1, 2, 5]))
    if draw(st.booleans()):
        o["DampingTime"] = float(10 ** draw(st.floats(-5, -3)))      # strong damping / diffusion per step
    parts = [[draw(st.sampled_from([0.0, 1.0, 0.5, 0.999999, 1e-6])) if draw(st.booleans()) else draw(st.floats(0, 1)),
              draw(st.sampled_from([0.0, 1.0, 0.5, 0.999999, 1e-6])) if draw(st.booleans()) else draw(st.floats(0, 1))]
             for _ in range(draw(st.integers(1, 12)))]
    return dict(opts=o, particles=parts, prng=draw(st.integers(1, 2**31 - 1)))


# ------------------------------------------------------------------ coverage-guided (libFuzzer, fuzz/fuzz_maps.cpp, oracle "ingrid")
from vlib import fuzzrun  # noqa: E402

MAPS_CORPUS = [bytes(range(200)), bytes([0] * 64), bytes([255, 3, 128, 64] * 64), bytes([17, 200, 90] * 100) + bytes([1, 9, 2, 3, 1, 0])]
run_fuzzingrid = fuzzrun.make_runner("c15", "VERIF_FUZZMAPS", MAPS_CORPUS, max_len=4096, env_extra={"VERIF_MAPS_ORACLE": "ingrid"})

def finalize(cov, agg, tier):
    fuzzrun.finalize(cov, agg, "fuzzingrid")


def subs(tier):
    return [Sub("fuzzingrid", st.just({}), run_fuzzingrid, quick=1, thorough=1, needs=("fuzzmaps",),
                enum=lambda t: fuzzrun.campaigns(t, 12000, 250000), max_wall={"quick": 400, "thorough": 3000}),
            Sub("blob", blob_cases(), run_blob, quick=6000, thorough=300000),
            Sub("ingrid", ingrid_cases(), run_ingrid, quick=2400, thorough=100000),
            Sub("ensemble", ensemble_cases(), run_ensemble, quick=48, thorough=800, shrink_budget=12),
            Sub("cli", cli_cases(), run_cli, quick=256, thorough=2400, needs=("san", "h5x", "shim"), shrink_budget=20)]
