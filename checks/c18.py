"""C18 — wake and CSR spectrum depend on the current profile only, not on past calls (DESIGN.md §3 C18).

A case is a configuration plus a history (list of operations) applied to ONE long-lived ElectricField.  After every
wake / pad / csr request a FRESH field object (same constructor arguments, same FFTW wisdom) is given the current
profiles and asked the same single question; all results are compared bit for bit."""
import numpy as np
from hypothesis import strategies as st

from vlib import gen
from vlib.driver import Outcome, Sub
from vlib import shim as shimmod

LEVEL = "exploration"
RULE = ("generated histories of 2-40 operations {set_profile(bunch, kind, scale), wake, pad, csr(cutoff)} over one field; "
        "configuration per history: n, nb in 1..3, buckets (with empty ones), spacing, transform length N from the pool "
        "(power of two / composite / odd / prime), complex impedance (dense, band-limited with an exact zero tail / head, sparse, "
        "all zero), constructor flavour (CSR-only or wake-capable). "
        "non-trivial = at least two distinct profiles were installed and at least one request follows the second; "
        "distinct = case hash")
ASSUMPTIONS = ["two FFTW plans created from the same wisdom for the same length and alignment execute identically"]
TOLERANCES = {"all comparisons": "bitwise"}


def S():
    return shimmod.get()


def profile(r, n, kind, scale):
    x = np.arange(n)
    if kind == "zero":
        v = np.zeros(n)
    elif kind == "impulse":
        v = np.zeros(n)
        v[int(r.integers(0, n))] = 1.0
    elif kind == "short":
        v = np.zeros(n)
        k = max(1, n // 4)
        v[:k] = r.random(k)
    elif kind == "smooth":
        v = np.exp(-0.5 * ((x - n * r.uniform(0.3, 0.7)) / (n * 0.1)) ** 2)
    else:
        v = r.standard_normal(n)
    return (v * scale).astype(np.float32)


def make_field(s, ps, imp, case):
    if case["wakecap"]:
        return s.ef_wake(ps, imp, case["buckets"], case["spacing"], 9e6, 1e-3, 1e-3, 1.3e9, 4.7e-4, 1e-10)
    return s.ef_csr(ps, imp, case["buckets"], case["spacing"], 9e6, 1e-3)


def snapshot(s, ef, op, wakecap):
    out = {}
    if op == "wake":
        out["wake"] = s.ef_get(ef, "wake").copy()
        out["padded_wake"] = s.ef_get(ef, "padded_wake").copy()
        out["padded_profile"] = s.ef_get(ef, "padded_profile").copy()
    elif op == "pad":
        out["padded_profile"] = s.ef_get(ef, "padded_profile").copy()
    elif op == "csr":
        out["csr_spectrum"] = s.ef_get(ef, "csr_spectrum").copy()
        out["csr_power"] = s.ef_get(ef, "csr_power").copy()
    return out


def run_case(case):
    s = S()
    n, nb, N = case["n"], len(case["buckets"]), case["N"]
    s.reset(n, nb)
    r = gen.rng(case["dseed"])
    fill = np.full(nb, 1.0 / nb, np.float32)
    ps = s.ps_new(-6, 6, -6, 6, filling=fill)
    for b in range(nb):
        s.ps_set_projection(ps, 0, b, profile(r, n, "smooth", 1.0))
    z = ((10 ** r.uniform(-2, 2, N)) * np.exp(1j * r.uniform(0, 2 * np.pi, N))).astype(np.complex64)
    # impedances with exact zeros: band-limited tables (an impedance file shorter than the frequency axis is padded with
    # zeros by the factory), low-frequency cut-offs, isolated zeros.  Buffers that are "still zero from last time" only stay
    # so if nobody scribbles on them (round-3 seed C18c: bins above the last non-zero sample no longer rewritten, while
    # FFTW's complex-to-real transform uses its input as scratch space)
    zk = case.get("zkind", "dense")
    if zk == "zero_tail":
        z[int(case["zcut"] * (N // 2)):] = 0
    elif zk == "zero_head":
        z[:max(1, int(case["zcut"] * (N // 2)))] = 0
    elif zk == "sparse":
        z[r.random(N) < 0.5] = 0
    elif zk == "allzero":
        z[:] = 0
    imp = s.imp_array(z, 1e12)
    ef = make_field(s, ps, imp, case)
    nprof = 1
    requests_after_second = 0
    prev = None
    hist = []
    cls = ["wakecap" if case["wakecap"] else "csronly", gen.nclass(N), "nb%d" % nb, "Z_" + case.get("zkind", "dense"),
           "spaced" if case["spacing"] > 0 and max(case["buckets"]) > 0 else "unspaced"]
    for i, op in enumerate(case["ops"]):
        kind = op[0]
        if kind == "set":
            _, b, pk, sc, sd = op
            s.ps_set_projection(ps, 0, b % nb, profile(gen.rng(sd), n, pk, sc))
            nprof += 1
            hist.append("set")
            continue
        if kind == "zadd":
            # the impedance object the field was built on is changed in place (another contribution added, as the unit
            # test forward_wake does): every later answer is for the impedance as it is NOW; the fresh field shares the object
            rz = gen.rng(op[1])
            s.imp_add(imp, ((10 ** rz.uniform(-2, 2, N)) * np.exp(1j * rz.uniform(0, 2 * np.pi, N))).astype(np.complex64), 1e12)
            hist.append("zadd")
            nprof += 1
            continue
        if kind in ("wake",) and not case["wakecap"]:
            continue
        arg = op[1] if kind == "csr" else 0.0
        s.ef_do(ef, kind, arg)
        got = snapshot(s, ef, kind, case["wakecap"])
        fresh = make_field(s, ps, imp, case)
        s.ef_do(fresh, kind, arg)
        want = snapshot(s, fresh, kind, case["wakecap"])
        s.lib.iv_free_ef(fresh)
        if nprof >= 2:
            requests_after_second += 1
        hist.append(kind)
        for k in got:
            if (gen.bits(got[k]) != gen.bits(want[k])).any():
                idx = np.argwhere(gen.bits(got[k]) != gen.bits(want[k]))[0].tolist()
                before = [h for h in hist[:-1] if h != "set"]
                return Outcome(False, nprof >= 2, cls,
                               "%s after history %s: %s of the long-lived field differs from a fresh field at index %s (got %r, fresh %r; n=%d N=%d buckets=%s spacing=%d %s)" %
                               (kind, hist[:-1][-6:], k, idx, float(got[k][tuple(idx)]), float(want[k][tuple(idx)]), n, N, case["buckets"],
                                case["spacing"], "wake-capable" if case["wakecap"] else "csr-only"),
                               sig="c18:%s:%s:after_%s" % (kind, k, (before[-1] if before else "none")))
    if "csr" in hist and "wake" in hist:
        cls.append("csr+wake")
    return Outcome(True, bool(nprof >= 2 and requests_after_second >= 1), cls)


@st.composite
def cases(draw):
    nb = draw(st.integers(1, 3))
    n, buckets, spacing, N, nbuckets = gen.field_layout(draw, nb, nmin=8, nmax=32, nlimit=512)
    wakecap = draw(st.booleans()) or draw(st.booleans())
    ops = []
    nops = draw(st.integers(2, 40))
    for _ in range(nops):
        k = draw(st.sampled_from(["set", "set", "wake", "wake", "pad", "csr", "csr", "set", "wake", "csr", "zadd"]))
        if k == "set":
            ops.append(["set", draw(st.integers(0, 2)), draw(st.sampled_from(["zero", "impulse", "short", "smooth", "noise"])),
                        float(10 ** draw(st.integers(-3, 3))), draw(st.integers(0, 10000))])
        elif k == "zadd":
            ops.append(["zadd", draw(st.integers(0, 10000))])
        elif k == "csr":
            ops.append(["csr", draw(st.sampled_from([0.0, 0.0, 1e9, 1e11]))])
        else:
            ops.append([k])
    zkind = draw(st.sampled_from(["dense", "dense", "dense", "zero_tail", "zero_tail", "zero_head", "sparse", "allzero"]))
    c = dict(n=n, buckets=buckets, spacing=spacing, N=N, wakecap=wakecap, ops=ops, dseed=draw(gen.seeds()))
    if zkind != "dense":
        c["zkind"] = zkind
        c["zcut"] = draw(st.sampled_from([0.02, 0.1, 0.25, 0.5, 0.75, 0.9, 0.99]))
    return c


# ------------------------------------------------------------------ coverage-guided histories (libFuzzer, fuzz/fuzz_field.cpp)
from vlib import fuzzrun  # noqa: E402

FUZZ_CORPUS = [bytes(range(64)), bytes([255, 0, 37, 200] * 40), bytes([0] * 90), bytes([7, 250, 33, 128, 64, 251] * 30)]
run_fuzzfield = fuzzrun.make_runner("c18", "VERIF_FUZZFIELD", FUZZ_CORPUS, max_len=768, wisdom=True)


def finalize(cov, agg, tier):
    fuzzrun.finalize(cov, agg, "fuzzfield")


def subs(tier):
    return [Sub("fuzzfield", st.just({}), run_fuzzfield, quick=1, thorough=1, needs=("fuzzfield",),
                enum=lambda t: fuzzrun.campaigns(t, 3000, 60000), max_wall={"quick": 500, "thorough": 3000}),
            Sub("history", cases(), run_case, quick=7500, thorough=300000)]
