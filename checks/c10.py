"""C10 — each record of the results file describes one instant, consistently (DESIGN.md §3 C10)."""
import os
import numpy as np
from hypothesis import strategies as st

from vlib import gen, cli, cfggen
from vlib.driver import Outcome, Sub

LEVEL = "exploration"
RULE = ("generated configurations of the real program (grid 16..64, independent grid shifts, 1-3 bunches of different currents "
        "with empty buckets, output cadences incl. 0 / non-divisors / beyond the end, phase-space save cadences, impedances "
        "none / collimator / resistive wall / free-space / shielded CSR, renormalisation, tracking, interpolation orders); "
        "oracle: invariants over the dumped HDF5 file evaluated at every record (counts, time axis, axes, projections, "
        "moments, wake convolution with the stored impedance and absolute scale, CSR sum and per-bunch rows, units).  "
        "non-trivial = >= 3 records and one of {unequal shifts, >= 2 bunches with unequal currents, wake present, laststep "
        "not a multiple of outstep}; distinct = case hash")
ASSUMPTIONS = ["h5x/libhdf5 read the file correctly", "options not stored in /Info/Parameters (booleans, vectors, strings) are taken from the generated command line"]
TOLERANCES = {"axes": "4e-6*extent", "projection": "4e-6*max", "moments": "3e-5*extent", "wake": "as C06 (3e-6 forward-error bound)",
              "csr_sum": 2e-3, "units_rel": 1e-6, "renormalisation_factor": "c = stored population / share (not fitted)"}
C = 2.99792458e8
PER_T = ["/BunchPopulation/data", "/BunchProfile/data", "/BunchLength/data", "/BunchPosition/data", "/EnergyProfile/data",
         "/EnergySpread/data", "/EnergyAverage/data", "/Particles/data", "/CSR/Spectrum/data", "/CSR/Intensity/data"]


def fail(nt, cls, msg, sig, met=None):
    return Outcome(False, nt, cls, msg, sig="c10:" + sig, metrics=met or {})


def expected_steps(d, outstep):
    L = d["laststep"]
    s = [k for k in range(0, L, outstep)] if outstep > 0 else []
    return s + [L]


def run_case(case):
    wd = cli.scratch("c10")
    o = dict(case["opts"])
    track = case.get("track") or []
    if track:
        with open(os.path.join(wd, "track.txt"), "w") as f:
            for q, p in track:
                f.write("%r %r\n" % (q, p))
        o["tracking"] = "track.txt"
    if case.get("startleg"):
        # the documented second way to start: from a phase-space record of an earlier results file (single bunch).  Every
        # statement about the file of THIS run is unchanged - records, axes, moments, wake, units (round-5 seed C10e swaps
        # charge and current of a grid loaded from a file; only the unit factors of the continued run show it)
        d0 = cfggen.derive(o)
        leg = dict(o, rotations=float(np.float32((case["startleg"] - 0.5) / d0["steps"])), outstep=1, SavePhaseSpace=1)
        leg.pop("tracking", None)
        r0 = cli.run(["-c", "/dev/null", "-o", "s.h5"] + cli.optargs(leg), wd)
        if r0.rc != 0 or "Finished." not in r0.out:
            return fail(True, ["startleg"], "first leg failed rc=%s: %s | %s" % (r0.rc, r0.out[-300:], r0.err[-300:]), "runfail")
        o["InitialDistFile"] = "s.h5"
    r = cli.run(["-c", "/dev/null", "-o", "r.h5"] + cli.optargs(o), wd)
    d = cfggen.derive(o)
    n, nb = d["n"], d["nb"]
    outstep, h5save = o["outstep"], o["SavePhaseSpace"]
    cls = ["nb%d" % nb] + (["other_machine"] if "BeamEnergy" in o else []) + (["fs_route"] if o.get("SynchrotronFrequency") else []) \
        + (["steps_per_revolution"] if o.get("StepsPerRevolution") else []) + (["from_results_file"] if case.get("startleg") else []) + (["impedance_file"] if o.get("Impedance") else [])
    if r.rc != 0 or "Finished." not in r.out:
        return fail(True, cls, "run failed rc=%s: %s | %s" % (r.rc, r.out[-400:], r.err[-400:]), "runfail")
    h = cli.H5(os.path.join(wd, "r.h5"))
    if not h.ok:
        return fail(True, cls, "results file unreadable: %s" % h.err, "unreadable")
    haswake = "/WakePotential/data" in h.ds and (o.get("VacuumGap", 0.03) != 0 or bool(o.get("Impedance")))
    steps = d["steps"]
    exp = expected_steps(d, outstep)
    t = h["/Info/AxisValues_t"]
    Nt = len(t)
    shiftx, shifty = o.get("PhaseSpaceShiftX", 0.0), o.get("PhaseSpaceShiftY", 0.0)
    uneq_cur = nb >= 2 and len(set(d["shares"])) > 1
    classes_nt = [shiftx != shifty, uneq_cur, haswake, outstep > 0 and d["laststep"] % outstep != 0]
    nontriv = bool(Nt >= 3 and any(classes_nt))
    for nm, c in zip(["uneqshift", "uneqcur", "wake", "ragged"], classes_nt):
        if c:
            cls.append(nm)
    met = {}
    # 1. record counts --------------------------------------------------------------------------------------------
    for ds in PER_T + (["/WakePotential/data"] if haswake else []):
        if ds not in h.ds:
            return fail(nontriv, cls, "dataset %s missing" % ds, "count:missing")
        if h.shape[ds][0] != Nt:
            return fail(nontriv, cls, "%s has %d records, its time axis %d (outstep=%d laststep=%d)" % (ds, h.shape[ds][0], Nt, outstep, d["laststep"]), "count:%s" % ds)
    tps = h["/PhaseSpace/axis0"]
    if h.shape["/PhaseSpace/data"][0] != len(tps):
        return fail(nontriv, cls, "/PhaseSpace/data has %d records, its time axis %d" % (h.shape["/PhaseSpace/data"][0], len(tps)), "count:ps")
    # 2. time axis -----------------------------------------------------------------------------------------------
    want_t = np.array([np.float32(s / steps) for s in exp], np.float32)
    if len(t) != len(want_t) or (gen.bits(t) != gen.bits(want_t)).any():
        return fail(nontriv, cls, "time axis %s, expected steps %s / %g (outstep=%d, laststep=%d)" % (t.tolist()[:12], exp[:12], steps, outstep, d["laststep"]), "timeaxis")
    if h5save == 0:
        exp_ps = [0, d["laststep"]]
    else:
        loop = [k for k in range(0, d["laststep"], outstep)] if outstep > 0 else []
        exp_ps = [s for i, s in enumerate(loop) if i % h5save == 0] + [d["laststep"]]
    want_tps = np.array([np.float32(s / steps) for s in exp_ps], np.float32)
    if len(tps) != len(want_tps) or (gen.bits(tps) != gen.bits(want_tps)).any():
        return fail(nontriv, cls, "phase-space time axis %s, expected steps %s / %g (SavePhaseSpace=%d outstep=%d)" % (tps.tolist()[:12], exp_ps[:12], steps, h5save, outstep), "timeaxis_ps")
    # 3. axes ----------------------------------------------------------------------------------------------------
    pq = d["pq"]
    delta = pq / (n - 1)
    i = np.arange(n)
    zq = -pq / 2 - shiftx * delta + i * delta
    zp = -pq / 2 - shifty * delta + i * delta
    ez = np.abs(h["/Info/AxisValues_z"] - zq).max() / pq
    ee = np.abs(h["/Info/AxisValues_E"] - zp).max() / pq
    met["axis_err"] = max(ez, ee)
    if ez > 4e-6:
        return fail(nontriv, cls, "position axis differs from the grid coordinates (shift X=%g): %.3g of the extent" % (shiftx, ez), "axis:z", met)
    if ee > 4e-6:
        return fail(nontriv, cls, "energy axis does not hold the energy coordinates actually used (shift X=%g, shift Y=%g): stored [%g..%g], grid [%g..%g]" %
                    (shiftx, shifty, h["/Info/AxisValues_E"][0], h["/Info/AxisValues_E"][-1], zp[0], zp[-1]), "axis:E", met)
    Ncsr = d["padded_bins"]
    fax = h["/Info/AxisValues_f"]
    dfq = (1.0 / float(np.float32(delta))) / (Ncsr - 1)
    if len(fax) != Ncsr // 2 or np.abs(fax - np.arange(Ncsr // 2) * dfq).max() > 4e-6 * (Ncsr // 2) * dfq:
        return fail(nontriv, cls, "frequency axis is not k/(dq*(N-1)), k < N/2 (N=%d, len %d)" % (Ncsr, len(fax)), "axis:f", met)
    # 9. units ---------------------------------------------------------------------------------------------------
    A = h.attrs
    units = [("/Info/AxisValues_z", "Meter", d["bl"]), ("/Info/AxisValues_z", "Second", d["bl"] / C),
             ("/Info/AxisValues_E", "ElectronVolt", d["dE"]), ("/Info/AxisValues_f", "Hertz", C / d["bl"]),
             ("/Info/AxisValues_t", "Second", d["t_sync"]), ("/Info/AxisValues_t", "Turn", d["t_sync"] * d["frev"]),
             ("/PhaseSpace/axis0", "Second", d["t_sync"]), ("/PhaseSpace/axis0", "Turn", d["t_sync"] * d["frev"]),
             ("/BunchPopulation/data", "Ampere", d["Ib"]), ("/BunchPopulation/data", "Coulomb", d["Qb"]),
             ("/BunchProfile/data", "AmperePerNBL", d["Ib"]), ("/BunchProfile/data", "CoulombPerNBL", d["Qb"]),
             ("/EnergyProfile/data", "AmperePerNES", d["Ib"]), ("/EnergyProfile/data", "CoulombPerNES", d["Qb"]),
             ("/PhaseSpace/data", "AmperePerNBLPerNES", d["Ib"]), ("/PhaseSpace/data", "CoulombPerNBLPerNES", d["Qb"]),
             ("/BunchLength/data", "Meter", d["bl"]), ("/BunchLength/data", "Second", d["bl"] / C),
             ("/BunchPosition/data", "Meter", d["bl"]), ("/BunchPosition/data", "Second", d["bl"] / C),
             ("/EnergySpread/data", "ElectronVolt", d["dE"]), ("/EnergyAverage/data", "ElectronVolt", d["dE"]),
             ("/CSR/Spectrum/data", "WattPerHertz", 2 * d["Ib"] ** 2 / d["frev"]),
             ("/CSR/Intensity/data", "Watt", 2 * d["Ib"] ** 2 / d["frev"] * C / d["bl"])]
    dp32 = float(np.float32(np.float32(pq / 2 - shifty * delta + 0) - np.float32(-pq / 2 - shifty * delta)) / np.float32(n - 1))
    if haswake:
        units.append(("/WakePotential/data", "Volt", delta * d["dE"] / d["revolutionpart"]))
    for ds, name, want in units:
        got = A.get(ds, {}).get(name)
        tol = 1e-6 if name != "Volt" else 1e-5
        if got is None or abs(got - want) > tol * abs(want):
            return fail(nontriv, cls, "unit factor %s of %s is %r, machine parameters imply %r" % (name, ds, got, want), "unit:%s" % name, met)
    par = h.params()
    for k, v in o.items():
        if k in par and not isinstance(v, (list, str, bool)):
            if float(par[k]) != float(np.float32(v) if k in ("alpha0", "alpha1", "alpha2", "PhaseSpaceShiftX", "PhaseSpaceShiftY", "PhaseSpaceSize",
                                                              "SynchrotronFrequency", "RevolutionFrequency", "HarmonicNumber", "CutoffFreq") else v):
                return fail(nontriv, cls, "/Info/Parameters/%s = %r, option given %r" % (k, par[k], v), "param:%s" % k, met)
    if d["buckets"] != h["/Info/BucketNumbers"].tolist():
        return fail(nontriv, cls, "/Info/BucketNumbers %s, filling pattern %s implies %s" % (h["/Info/BucketNumbers"].tolist(), d["fill"], d["buckets"]), "buckets", met)
    # per record -------------------------------------------------------------------------------------------------
    w = gen.simpson_weights(n, float(np.float32(delta)))
    zax = h["/Info/AxisValues_z"].astype(np.float64)
    pax = zp      # the grid's true energy coordinates (the stored E axis is judged above)
    prof = h["/BunchProfile/data"].astype(np.float64)
    eprof = h["/EnergyProfile/data"].astype(np.float64)
    pop = h["/BunchPopulation/data"].astype(np.float64)
    ren = o.get("RenormalizeCharge", 0)
    shares = d["shares"]
    ps = h["/PhaseSpace/data"]
    ps_steps = exp_ps
    for ri, s in enumerate(exp):
        renorm_step = ren > 0 and s % ren == 0
        # 8. rows / population
        for b in range(nb):
            # right after the initial normalisation (step 0, RenormalizeCharge >= 0) every bunch holds its share; later
            # records may have lost charge over the grid border, which this property does not exclude
            # (only for the generated start distribution: a distribution loaded from a results file keeps the charge it was
            # stored with, and on a renormalisation step the stored population is the one measured BEFORE rescaling)
            if s == 0 and ren >= 0 and not case.get("startleg") and abs(pop[ri, b] / shares[b] - 1) > 1e-4:
                return fail(nontriv, cls, "record %d (step %d): population of bunch %d is %.6g, its share of the filling is %.6g" % (ri, s, b, pop[ri, b], shares[b]), "rows:population", met)
            integ = (prof[ri, b] * w).sum()
            # (relative to the sum of the magnitudes: a run that has blown up holds alternating values whose sum is small)
            e = abs(integ - pop[ri, b]) / max(shares[b], abs(pop[ri, b]), float((np.abs(prof[ri, b]) * w).sum()))
            met["pop_err"] = max(met.get("pop_err", 0), e)
            if e > 5e-6:
                return fail(nontriv, cls, "record %d: bunch %d profile integrates to %.8g, stored population %.8g" % (ri, b, integ, pop[ri, b]), "moments:population", met)
        # 4. projections (where a phase space is stored for this step)
        if s in ps_steps:
            pi = ps_steps.index(s)
            if pi == 0 and s == 0 and h5save == 0:
                prenorm_ps = True
            else:
                prenorm_ps = False
            for b in range(nb):
                g = ps[pi, b].astype(np.float64)
                py = (g * w[None, :]).sum(axis=1)
                px = (g * w[:, None]).sum(axis=0)
                c = pop[ri, b] / shares[b] if renorm_step else 1.0
                cb, ce = (1.0, 1.0 / c) if prenorm_ps else (c, 1.0)
                if prenorm_ps and case.get("startleg") and renorm_step and np.abs(px).max() > 0:
                    # a loaded start is rescaled twice before the first record (once by the construction factor in front of
                    # the loop, once by the renormalisation); where exactly the "initial conditions" snapshot sits between
                    # the two is not part of the property: the energy profile must be the projection of the snapshot up to ONE
                    # common factor, and that factor must be 1/c within 1e-3
                    fit = float((eprof[ri, b] * px).sum() / (px * px).sum())
                    if abs(fit * c - 1) <= 1e-3:
                        ce = fit
                e1 = np.abs(prof[ri, b] - cb * py).max() / (np.abs(cb * py).max() + 1e-30)
                e2 = np.abs(eprof[ri, b] - ce * px).max() / (np.abs(ce * px).max() + 1e-30)
                met["proj_err"] = max(met.get("proj_err", 0), e1, e2)
                if e1 > 4e-6:
                    return fail(nontriv, cls, "record %d (step %d): bunch profile of bunch %d is not the projection of the stored phase space (rel %.3g; renormalisation step: %s)" % (ri, s, b, e1, renorm_step), "proj:bunchprofile", met)
                if e2 > 4e-6:
                    return fail(nontriv, cls, "record %d (step %d): energy profile of bunch %d is not the projection of the stored phase space (rel %.3g; renormalisation step: %s)" % (ri, s, b, e2, renorm_step), "proj:energyprofile", met)
        # 5. moments of the stored profiles
        for b in range(nb):
            for (pr, ax, mean_ds, rms_ds, nm) in ((prof[ri, b], zax, "/BunchPosition/data", "/BunchLength/data", "position"),
                                                   (eprof[ri, b], pax, "/EnergyAverage/data", "/EnergySpread/data", "energy")):
                m1 = (pr * ax).sum() * delta / pop[ri, b]
                m2 = (pr * (ax - m1) ** 2).sum() * delta / pop[ri, b]
                g1, g2 = float(h[mean_ds][ri, b]), float(h[rms_ds][ri, b])
                if not (np.isfinite(m1) and np.isfinite(m2)) or abs(m2) > 1e36 or abs(m1) > 1e18:
                    # a run that has blown up (all charge lost, then renormalised by a vanishing integral): the variance does
                    # not fit into single precision any more, "inf" is then the correctly rounded stored value
                    cls.append("moments_overflow_f32")
                    continue
                e = max(abs(g1 - m1), abs(g2 - np.sqrt(max(m2, 0)))) / max(pq, abs(m1), np.sqrt(max(m2, 0)))   # relative for blown-up (unstable) runs
                met["mom_err"] = max(met.get("mom_err", 0), e)
                if e > 3e-5:
                    return fail(nontriv, cls, "record %d bunch %d: stored %s mean/rms %.7g/%.7g, moments of the stored profile %.7g/%.7g" % (ri, b, nm, g1, g2, m1, np.sqrt(max(m2, 0))), "moments:%s" % nm, met)
    # 6. wake -----------------------------------------------------------------------------------------------------
    if haswake:
        zre, zim = h["/Impedance/data/real"], h["/Impedance/data/imag"]
        N = d["nmax_wake"]
        if len(zre) != N // 2:
            return fail(nontriv, cls, "stored impedance has %d samples, transform length %d" % (len(zre), N), "wake:implen", met)
        Z = zre.astype(np.complex128) + 1j * zim
        sp = d["spacing_bins"] if d["nbuckets"] > 1 else 0
        scale = d["Ib"] * d["dt"] * C / d["bl"] / (float(np.float32(delta)) * d["dE"])
        kk = np.arange(N // 2)
        E = np.exp(-2j * np.pi * np.outer(kk, np.arange(N)) / N)
        wk = h["/WakePotential/data"].astype(np.float64)
        for ri in sorted(set([0, len(exp) // 2, len(exp) - 1])):
            P = np.zeros(N)
            for b in range(nb):
                P[d["buckets"][b] * sp: d["buckets"][b] * sp + n] = prof[ri, b]
            F = E @ P
            Y = Z * F
            wv = np.real(Y[0] + 2 * (np.conj(E[1:]).T @ Y[1:]))
            Fe = np.abs(F) + 0.3 * np.sqrt((P * P).sum())
            bound = ((np.abs(Z) * Fe)[0] + 2 * (np.abs(Z) * Fe)[1:].sum()) * scale / N
            for b in range(nb):
                ref = scale / N * wv[d["buckets"][b] * sp: d["buckets"][b] * sp + n]
                e = np.abs(wk[ri, b] - ref).max()
                met["wake_err_over_bound"] = max(met.get("wake_err_over_bound", 0), e / (bound + 1e-300))
                if e > 3e-6 * bound + 1e-6 * np.abs(ref).max():
                    return fail(nontriv, cls, "record %d: stored wake potential of bunch %d is not the convolution of the stored profile with the stored impedance at the scale implied by the file (max err %.3g, allowed %.3g, max |W| %.3g)" %
                                (ri, b, e, 3e-6 * bound, np.abs(ref).max()), "wake:%s" % ("bunch0" if b == 0 else "bunch>=1"), met)
    # 7. CSR ------------------------------------------------------------------------------------------------------
    spec = h["/CSR/Spectrum/data"].astype(np.float64)
    inten = h["/CSR/Intensity/data"].astype(np.float64)
    from vlib import shim as shimmod
    sh = shimmod.get()
    sh.reset(8, 1)
    gap = o.get("VacuumGap", 0.03)
    zh = sh.imp_make(Ncsr, float(np.float32(d["fmax"])), d["R"], d["frev"], gap if gap > 0 else -1.0)
    Zrad = sh.imp_data(zh).astype(np.complex128)
    kk = np.arange(Ncsr // 2 + 1)
    Ec = np.exp(-2j * np.pi * np.outer(kk, np.arange(n)) / Ncsr)
    for ri in sorted(set([0, len(exp) - 1])):
        Fb = [Ec @ prof[ri, b] for b in range(nb)]
        for b in range(nb):
            tot = spec[ri, b].sum() * dfq
            # the stored half omits bin N/2, which the intensity includes: that term is computed from the radiation
            # impedance model (built through the shim with main.cpp's arguments; the models are C16's subject)
            f2 = np.abs(Fb[b]) ** 2
            dq32 = float(np.float32(delta))
            model = dq32 * dq32 * Zrad.real[:Ncsr // 2 + 1] * f2
            fc = float(np.float32(o.get("CutoffFreq", 23e9)))
            if fc > 0:
                # documented beamline cutoff: spectrum damped by 1 - exp(-(f/fc)^2)
                model = model * (1 - np.exp(-((C / d["bl"]) * np.arange(Ncsr // 2 + 1) * dfq / fc) ** 2))
            # the float FFT leaves an absolute error of order 3e-7*||rho||_1 on every form-factor bin
            Eff = 3e-7 * np.abs(prof[ri, b]).sum()
            tolk = model / np.maximum(f2, 1e-300) * (2 * np.sqrt(f2) * Eff + Eff * Eff)
            T = model[Ncsr // 2] * dfq
            if spec[ri, b].max() > 0 and tot > 0:
                e = abs(inten[ri, b] - (tot + T))
                allow = 2e-3 * (tot + T) + dfq * tolk.sum() + 1e-30   # 1e-30: below that single precision underflows
                met["csr_sum"] = max(met.get("csr_sum", 0), e / allow)
                if e > allow:
                    return fail(nontriv, cls, "record %d bunch %d: CSR intensity %.6g, sum of the stored spectrum x df = %.6g (+ %.3g for the unstored top bin; allowed deviation %.3g)" % (ri, b, inten[ri, b], tot, T, allow), "csr:sum:%s" % ("bunch0" if b == 0 else "bunch>=1"), met)
            dv = np.abs(spec[ri, b] - model[:Ncsr // 2]) - tolk[:Ncsr // 2]
            es = dv.max() / (model.max() + 1e-30)
            met["csr_spec"] = max(met.get("csr_spec", 0), es)
            if es > 1e-3:
                return fail(nontriv, cls, "record %d bunch %d: stored CSR spectrum is not dq^2 Re Z |F|^2 of the stored profile (rel %.3g)" % (ri, b, es), "csr:spectrum:%s" % ("bunch0" if b == 0 else "bunch>=1"), met)
            if b > 0:
                a0, ab = np.abs(Fb[0][:Ncsr // 2]) ** 2, np.abs(Fb[b][:Ncsr // 2]) ** 2
                lhs, rhs = spec[ri, b] * a0, spec[ri, 0] * ab
                big = (a0 > 1e-6 * a0.max()) & (ab > 1e-6 * ab.max())
                if big.any():
                    e = np.abs(lhs - rhs)[big].max() / (np.abs(rhs)[big].max() + 1e-30 * max(a0.max(), ab.max()))
                    met["csr_rows"] = max(met.get("csr_rows", 0), e)
                    if e > 1e-3:
                        return fail(nontriv, cls, "record %d: CSR spectrum row of bunch %d does not belong to that bunch's profile (relative mismatch %.3g against bunch 0's row)" % (ri, b, e), "csr:rows", met)
    # tracked particles inside the grid
    part = h["/Particles/data"]
    if part.size:
        if not np.isfinite(part).all() or (part[..., 0] < zq[0] - 1e-4).any() or (part[..., 0] > zq[-1] + 1e-4).any():
            return fail(nontriv, cls, "stored particle positions outside the position axis", "particles", met)
    return Outcome(True, nontriv, cls, metrics=met)


@st.composite
def cases(draw):
    o = draw(cfggen.base_config(nmin=16, nmax=64, min_laststep=3, max_laststep=60, big=24, via_rev=6, machine=3))
    d = cfggen.derive(o)
    L = d["laststep"]
    o["outstep"] = draw(st.sampled_from([0, 1, 1, 2, 2, 3, 3, 7, max(L, 1), L + 5]))
    o["SavePhaseSpace"] = draw(st.sampled_from([0, 1, 1, 2, 5]))
    o["FPTrack"] = draw(st.sampled_from([0, 1, 2]))
    if draw(st.integers(0, 9)) == 0:
        o["rotations"] = 0.0
    track = [[draw(st.floats(-4, 4)), draw(st.floats(-4, 4))] for _ in range(draw(st.sampled_from([0, 0, 1, 5])))]
    c = dict(opts=o, track=track)
    if len(o.get("BunchCurrent", [1])) == 1 and draw(st.integers(0, 3)) == 0:
        c["startleg"] = draw(st.integers(1, 12))
    return c


# ------------------------------------------------------------------ rows follow the bunches: permuting the currents permutes the rows
def run_permute(case):
    wd = cli.scratch("c10p")
    o = dict(case["opts"])
    cur = case["currents"]
    H = []
    for i, pat in enumerate((cur, cur[::-1])):
        r = cli.run(["-c", "/dev/null", "-o", "r%d.h5" % i] + cli.optargs(dict(o, BunchCurrent=pat)), wd)
        if r.rc != 0 or "Finished." not in r.out:
            return fail(True, ["permute"], "run failed: %s %s" % (r.out[-300:], r.err[-300:]), "permute:runfail")
        H.append(cli.H5(os.path.join(wd, "r%d.h5" % i)))
    nb = len(cur)
    for ds in ["/BunchPopulation/data", "/BunchProfile/data", "/EnergyProfile/data", "/BunchLength/data", "/BunchPosition/data",
               "/EnergySpread/data", "/EnergyAverage/data", "/PhaseSpace/data", "/CSR/Intensity/data", "/CSR/Spectrum/data"]:
        a, b = H[0][ds], H[1][ds]
        for k in range(nb):
            if (gen.bits(a[:, k]) != gen.bits(b[:, nb - 1 - k])).any():
                return fail(True, ["permute"], "%s: row %d of the run with currents %s is not row %d of the run with the currents reversed (no impedance: bunches are independent)" %
                            (ds, k, cur, nb - 1 - k), "permute:%s" % ds)
    return Outcome(True, True, ["permute", "nb%d" % nb])


@st.composite
def permute_cases(draw):
    o = draw(cfggen.base_config(nmin=16, nmax=40, min_laststep=3, max_laststep=30, multibunch=False, wake=("none",)))
    o.pop("padding", None)
    o["RoundPadding"] = True
    o["outstep"] = draw(st.sampled_from([1, 2, 5]))
    o["SavePhaseSpace"] = draw(st.sampled_from([1, 2]))
    nb = draw(st.integers(2, 3))
    cur = draw(st.lists(st.floats(2e-4, 3e-3).map(gen.f32), min_size=nb, max_size=nb, unique=True))
    o["alpha0"] = gen.f32(cfggen.alpha0_for_spacing(draw(st.floats(1.1, 2.0)), dict(o, BunchCurrent=cur)))
    return dict(opts=o, currents=cur)


def subs(tier):
    return [Sub("file", cases(), run_case, quick=1280, thorough=12000, needs=("rel", "h5x", "shim"), shrink_budget=60),
            Sub("permute", permute_cases(), run_permute, quick=64, thorough=600, needs=("rel", "h5x", "shim"), shrink_budget=16)]
