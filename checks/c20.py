"""C20 — command line beats config file beats default; legacy aliases are honoured (DESIGN.md §3 C20)."""
import os
import re
import numpy as np
from hypothesis import strategies as st

from vlib import gen, opts as O, cli
from vlib.driver import Outcome, Sub
from vlib import shim as shimmod

LEVEL = "exploration"
RULE = ("precedence: for a generated subset of all registered options a presence pattern in {command line, config file, both with "
        "different values}; legacy aliases in the file (alone / against the current name on the command line); compatibility-only "
        "options with arbitrary values; reference model: effective = cli if present else file else default (default observed "
        "from an empty command line and cross-checked against the --help text).  non-trivial = one option in both sources with "
        "different values and one only in the file.  faults (real binary): unknown option names, malformed values, missing / "
        "directory config path on command line and in files: failure status + message, nothing simulated, no output files")
ASSUMPTIONS = ["an alias and its current name in the same config file is ambiguous and not generated",
               "the getter of a compatibility-only option's own storage (HaissinskiIterations) is not compared"]
TOLERANCES = {"getters": "bitwise"}
_defaults = None


def S():
    return shimmod.get()


def getters(args):
    s = S()
    h, run = s.opts_parse(args)
    g = O.decode_getters(s.opts_json(h))
    s.opts_free(h)
    return g


def defaults():
    global _defaults
    if _defaults is None:
        _defaults = getters(["--config=/dev/null"])
    return _defaults


def run_prec(case):
    d = os.environ.get("VERIF_SCRATCH", ".")
    os.chdir(d)
    for f in ("c.cfg", "c2.cfg", "default.cfg"):
        if os.path.exists(f):
            os.remove(f)
    with open("c.cfg", "w") as f:
        f.write(O.cfg_text(case["file"]))
    args = ["--config=c.cfg"] + O.cli_args(case["cli"], short=case.get("short", ()))
    try:
        g = getters(args)
    except shimmod.ShimError as e:
        return Outcome(False, True, ["rejected"], "legal invocation rejected: %s (cli=%s file=%s)" % (e, case["cli"], case["file"]), sig="c20:rejected")
    dflt = defaults()
    cls = []
    both = [k for k in case["cli"] if (k in case["file"] or any(O.ALIASES.get(a) == k for a in case["file"]))]
    onlyfile = [k for k in case["file"] if O.ALIASES.get(k, k) not in case["cli"] and k not in O.IGNORED]
    hasalias = any(k in O.ALIASES for k in case["file"])
    if hasalias:
        cls.append("alias")
    if both:
        cls.append("both")
    if any(k in O.IGNORED for k in case["file"]):
        cls.append("ignored")
    nontriv = bool(both and onlyfile)
    filecanon = {O.ALIASES.get(k, k): v for k, v in case["file"].items() if k not in O.IGNORED}
    for name, (t, gk) in O.OPTS.items():
        if name in case["cli"]:
            want, src = O.expected_getter(name, case["cli"][name]), "command line"
        elif name in filecanon:
            want, src = O.expected_getter(name, filecanon[name]), "config file"
        else:
            want, src = dflt[gk], "default"
        got = g[gk]
        if got != want:
            via = [a for a in case["file"] if O.ALIASES.get(a) == name]
            return Outcome(False, nontriv, cls, "option %s: effective value %r, expected %r from the %s%s (cli=%s file=%s)" %
                           (name, got, want, src, " (given through legacy name %s)" % via[0] if via else "", case["cli"], case["file"]),
                           sig="c20:prec:%s:%s" % (src.split()[0], "alias" if via else "plain"))
    return Outcome(True, nontriv, cls)


@st.composite
def prec_cases(draw):
    names = sorted(n for n in O.OPTS if n not in ("run_anyway",))
    k = draw(st.integers(1, 10))
    chosen = draw(st.lists(st.sampled_from(names), min_size=k, max_size=k, unique=True))
    for a, c in O.ALIASES.items():
        if draw(st.integers(0, 3)) == 0 and c not in chosen:
            chosen.append(c)
    cli_, fil = {}, {}
    for n in chosen:
        pat = draw(st.sampled_from(["cli", "file", "file", "both", "both"]))
        v = draw(O.value_strategy(n))
        alias = [a for a, c in O.ALIASES.items() if c == n]
        usealias = bool(alias) and draw(st.booleans())
        if pat in ("cli", "both"):
            cli_[n] = v
        if pat in ("file", "both"):
            v2 = v
            if pat == "both":
                v2 = draw(O.value_strategy(n).filter(lambda x: x != v))
            fil[alias[0] if usealias else n] = v2
    for n in O.IGNORED:
        if draw(st.integers(0, 5)) == 0:
            fil[n] = draw(O.value_strategy(n))
    short = [n for n in cli_ if n in O.SHORT and draw(st.booleans())]
    return dict(cli=cli_, file=fil, short=short)


# ------------------------------------------------------------------ alias substitution (metamorphic)
def run_alias(case):
    d = os.environ.get("VERIF_SCRATCH", ".")
    os.chdir(d)
    with open("a.cfg", "w") as f:
        f.write(O.cfg_text(case["file"]))
    sub = {O.ALIASES.get(k, k): v for k, v in case["file"].items()}
    with open("b.cfg", "w") as f:
        f.write(O.cfg_text(sub))
    try:
        ga = getters(["--config=a.cfg"] + O.cli_args(case["cli"]))
        gb = getters(["--config=b.cfg"] + O.cli_args(case["cli"]))
    except shimmod.ShimError as e:
        return Outcome(False, True, ["alias"], "legal invocation rejected: %s" % e, sig="c20:alias:rejected")
    nontriv = any(k in O.ALIASES for k in case["file"])
    for k in ga:
        if ga[k] != gb[k]:
            return Outcome(False, nontriv, ["alias"], "getter %s differs between a config file using legacy names (%r) and the same file with current names (%r): file=%s cli=%s" %
                           (k, ga[k], gb[k], case["file"], case["cli"]), sig="c20:alias:%s" % k)
    return Outcome(True, nontriv, ["alias", "withcli" if case["cli"] else "nocli"])


@st.composite
def alias_cases(draw):
    fil, cli_ = {}, {}
    for a, c in O.ALIASES.items():
        if draw(st.booleans()) or not fil:
            fil[a] = draw(O.value_strategy(c))
            if draw(st.integers(0, 2)) == 0:
                cli_[c] = draw(O.value_strategy(c).filter(lambda x: x != fil[a]))
    for n in draw(st.lists(st.sampled_from(sorted(n for n in O.OPTS if n not in O.ALIASES.values() and n != "run_anyway")), max_size=4, unique=True)):
        (fil if draw(st.booleans()) else cli_)[n] = draw(O.value_strategy(n))
    return dict(cli=cli_, file=fil)


# ------------------------------------------------------------------ ignored options (metamorphic)
def run_ignored(case):
    d = os.environ.get("VERIF_SCRATCH", ".")
    os.chdir(d)
    base = {k: v for k, v in case["file"].items() if k not in O.IGNORED}
    with open("a.cfg", "w") as f:
        f.write(O.cfg_text(case["file"]))
    with open("b.cfg", "w") as f:
        f.write(O.cfg_text(base))
    try:
        ga = getters(["--config=a.cfg"] + O.cli_args(case["cli"]))
        gb = getters(["--config=b.cfg"] + O.cli_args(case["cli"]))
    except shimmod.ShimError as e:
        return Outcome(False, True, ["ignored"], "config with compatibility-only options rejected: %s (file=%s)" % (e, case["file"]), sig="c20:ignored:rejected")
    for k in ga:
        if k == "HaissinskiIterations":
            continue
        if ga[k] != gb[k]:
            return Outcome(False, True, ["ignored"], "compatibility-only options changed getter %s: %r vs %r (file=%s)" % (k, ga[k], gb[k], case["file"]), sig="c20:ignored:%s" % k)
    return Outcome(True, True, ["ignored"])


@st.composite
def ignored_cases(draw):
    c = draw(prec_cases())
    c["file"] = {k: v for k, v in c["file"].items() if k not in O.ALIASES}
    for n in O.IGNORED:
        if draw(st.booleans()) or not any(k in O.IGNORED for k in c["file"]):
            c["file"][n] = draw(O.value_strategy(n))
    return c


# ------------------------------------------------------------------ documented defaults (--help text)
def run_help(case):
    wd = cli.scratch("help")
    r = cli.run(["--help"], wd)
    txt = r.out
    dflt = defaults()
    name = case["name"]
    t, gk = O.OPTS[name]
    line = [l for l in txt.splitlines() if re.search(r"--%s\b" % re.escape(name), l)]
    found = re.findall(r"\(=((?:[^()]|\([^()]*\))*)\)", line[0]) if line else []
    if not found:
        if name in ("InitialDistFile", "Impedance", "output", "BunchCurrent") or (name == "tracking" and dflt[gk] == ""):
            return Outcome(True, False, ["nodefault"])
        return Outcome(False, True, ["help"], "option %s has no documented default in --help" % name, sig="c20:help:missing")

    class _M:
        def group(self, i):
            return found[-1]
    m = _M()
    doc = m.group(1).strip()
    got = dflt[gk]
    if t == "s":
        ok = (doc == got) or (doc in ('""',) and got == "")
    elif doc == "(ignore)":
        ok = got == 0
    else:
        try:
            dv = float(doc)
        except ValueError:
            dv = None
        ok = dv is not None and (got == dv or abs(got - dv) <= 1e-6 * abs(dv))
    if not ok:
        return Outcome(False, True, ["help"], "option %s: documented default %r, value without any setting %r" % (name, doc, got), sig="c20:help:%s" % name)
    return Outcome(True, True, ["help"])


def help_enum(tier):
    return [dict(name=n) for n in sorted(O.OPTS)]


# ------------------------------------------------------------------ faults (real binary)
def run_fault(case):
    wd = cli.scratch("fault")
    kind = case["kind"]
    args = ["--GridSize=16", "--rotations=0.01", "--StepsPerTs=10", "-o", "out.h5"]
    cfgname = "/dev/null"
    if case["where"] == "file":
        cfgname = "bad.cfg"
        with open(os.path.join(wd, cfgname), "w") as f:
            f.write("GridSize=16\n" + case["line"] + "\n")
        args = ["--config=" + cfgname] + args
    elif kind == "missingcfg":
        if case["line"] == "dir":
            os.makedirs(os.path.join(wd, "adir.cfg"))
            args = ["--config=adir.cfg"] + args
        else:
            args = ["--config=" + case["line"]] + args
    else:
        args = ["--config=/dev/null"] + args + case["tokens"]
    r = cli.run(args, wd)
    log = ""
    if os.path.exists(os.path.join(wd, "out.h5.log")):
        log = open(os.path.join(wd, "out.h5.log")).read()
    started = "Starting the simulation" in (r.out + log)
    made = [f for f in os.listdir(wd) if f.startswith("out.h5") and not f.endswith(".log")]
    cls = [kind, case["where"]]
    what = case["line"] if case["where"] == "file" or kind == "missingcfg" else " ".join(case["tokens"])
    if r.timed_out or r.signal:
        return Outcome(False, True, cls, "program crashed / hung on %r (signal %s)" % (what, r.signal), sig="c20:fault:crash")
    if started or made:
        return Outcome(False, True, cls, "%s %r did not stop the program: simulation started=%s, files=%s, rc=%s" % (kind, what, started, made, r.rc), sig="c20:fault:%s:started" % kind)
    if kind == "missingcfg":
        if not (r.out + r.err).strip():
            return Outcome(False, True, cls, "missing config file %r: no message" % what, sig="c20:fault:missingcfg:nomsg")
        return Outcome(True, True, cls)
    if r.rc == 0 or not r.err.strip():
        return Outcome(False, True, cls, "%s %r (%s): exit status %s, stderr %r" % (kind, what, case["where"], r.rc, r.err[:200]), sig="c20:fault:%s:status" % kind)
    return Outcome(True, True, cls)


@st.composite
def fault_cases(draw):
    kind = draw(st.sampled_from(["unknown", "malformed", "malformed", "missingcfg"]))
    where = draw(st.sampled_from(["cli", "file"])) if kind != "missingcfg" else "cli"
    numeric = sorted(n for n, (t, g) in O.OPTS.items() if t in ("f4", "f8", "u4", "i4", "i8") and n != "cldev")
    if kind == "unknown":
        name = draw(st.text(alphabet="abcdefghijklmnopqrstuvwxyzXYZ", min_size=3, max_size=10).filter(
            lambda s: s not in O.OPTS and s not in O.ALIASES and s not in O.IGNORED and s not in (
                "help", "copyright", "version", "buildinfo", "config", "gui", "cldev", "ForceOpenGLVersion", "output", "steps")
            and not any(o.startswith(s) for o in list(O.OPTS) + ["help", "copyright", "version", "buildinfo", "config", "gui", "ForceOpenGLVersion"])))
        val = draw(st.sampled_from(["1", "abc", "0.5"]))
        return dict(kind=kind, where=where, tokens=["--%s=%s" % (name, val)], line="%s=%s" % (name, val))
    if kind == "malformed":
        # not one of the options the base command line sets: a value in the file that the command line overrides is
        # never looked at by the parser, so it cannot "stop the program" (and the property does not ask for that)
        name = draw(st.sampled_from([n for n in numeric if n not in ("GridSize", "rotations", "StepsPerTs")]))
        t = O.OPTS[name][0]
        bad = ["abc", "12abc", "1,5", "0x", "--", "one"]
        if t in ("u4", "i4", "i8"):
            bad += ["1.5", "2e", "3.0.1"]
        val = draw(st.sampled_from(bad))
        return dict(kind=kind, where=where, tokens=["--%s=%s" % (name, val)], line="%s=%s" % (name, val))
    return dict(kind=kind, where="cli", tokens=[], line=draw(st.sampled_from(["nonexistent.cfg", "sub/dir/none.cfg", "dir", "./default.cfg", "sub/default.cfg",
                                                                                "default.cfg.bak", "mydefault.cfg", "../default.cfg", "Default.cfg"])))


def subs(tier):
    return [Sub("precedence", prec_cases(), run_prec, quick=6000, thorough=120000),
            Sub("alias", alias_cases(), run_alias, quick=1600, thorough=30000),
            Sub("ignored", ignored_cases(), run_ignored, quick=1200, thorough=20000),
            Sub("helpdefaults", st.just({}), run_help, quick=1, thorough=1, needs=("shim", "rel"), enum=help_enum),
            Sub("faults", fault_cases(), run_fault, quick=240, thorough=1500, needs=("shim", "rel"))]
