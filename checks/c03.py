"""C03 — the bunch centroid rotates by 2*pi/steps per step and the orbit closes (DESIGN.md §3 C03)."""
import os
import numpy as np
from hypothesis import strategies as st

from vlib import gen, cli, cfggen
from vlib.driver import Outcome, Sub
from vlib import shim as shimmod

LEVEL = "exploration"
RULE = ("api: RFKickMap(linear, angle = 2 pi/steps) + DriftMap(slip = angle) wired as in main.cpp on grids n in 32..128, extent "
        "8..16, independent shifts of up to n/8 cells in x and y, interpolation order 2..4, steps/period 20..400; start = mixture "
        "of 1-3 Gaussians with centroid radius 0.2..2 whose 5 sigma support stays inside the grid for the whole orbit; the centroid "
        "is computed from the raw grid in float64 after every step of a full period.  Oracle 1: exact rotation by k*angle in the "
        "fixed sense, deviation <= angle*|x0| (splitting error); oracle 2: the float64 kick-drift matrix model; oracle 3: same "
        "physical distribution on a differently centred grid gives the same orbit.  cli: the real program started from a "
        "generated off-centre distribution (DampingTime=0, no impedance, outstep=1, one period), linear and sinusoidal RF, small "
        "alpha1/alpha2.  non-trivial = |x0| >= 0.2 and the 3 sigma contour >= it+2 cells from the border")
ASSUMPTIONS = ["interpolation of order >= 2 preserves first moments of interior-supported data (C02)"]
C1, C2 = 1.0, 0.6      # theory (kick-drift matrix vs exact rotation): <= 0.84 and <= 0.50 for steps >= 20
TOLERANCES = {"rotation": "|x_k - R(k theta) x_0| <= 1.0*theta*|x_0| + 2e-4", "closure": "0.6*theta*|x_0| + 2e-4",
              "matrix_model": "1e-3 absolute (observed <= 3e-4: dispersive tails of coarse grids reaching the border late in the period)", "centring": "2e-3 beyond the difference of the two discretised start centroids", "cli_sinusoidal_extra": "0.6*r^2*bl2phase-nonlinearity"}


def S():
    return shimmod.get()


def density(case, q, p):
    Q, P = np.meshgrid(q, p, indexing="ij")
    d = np.zeros_like(Q)
    for g in case["gauss"]:
        zq, zp = (Q - g["mq"]) / g["s"], (P - g["mp"]) / g["s"]
        # exactly compact support (radius 4.5 sigma): the property speaks of distributions that stay inside the grid
        d += g["a"] * np.maximum(0.0, np.exp(-0.5 * (zq * zq + zp * zp)) - np.exp(-0.5 * 4.5 ** 2))
    return d


def centroid(data, q, p):
    d = data.astype(np.float64)
    tot = d.sum()
    return np.array([(d.sum(axis=1) * q).sum() / tot, (d.sum(axis=0) * p).sum() / tot])


def orbit(case, sx, sy):
    """iterate one period; returns array (steps+1, 2) of centroids in physical coordinates"""
    s = S()
    n, it, steps = case["n"], case["it"], case["steps"]
    # "the centre of charge of ANY distribution": also of a bunch that is not the first one of a train (the orbit of the
    # last bunch is the one that is judged; for a single bunch that is the only one)
    nb = case.get("nb", 1)
    s.reset(n, nb)
    L = case["L"]
    delta = 2 * L / (n - 1)
    qc, pc = -sx * delta, -sy * delta
    fill = np.full(nb, 1.0 / nb, np.float32)
    a = s.ps_new(qc - L, qc + L, pc - L, pc + L, qscale=1.2e-3, pscale=6.11e5, filling=fill)
    b = s.ps_new(qc - L, qc + L, pc - L, pc + L, qscale=1.2e-3, pscale=6.11e5, filling=fill)
    q = s.ps_get(a, "axis0").astype(np.float64)
    p = s.ps_get(a, "axis1").astype(np.float64)
    dens = density(case, q, p).astype(np.float32)
    for bb in range(nb):
        s.ps_data(a)[bb] = dens * np.float32(bb + 1)
    theta = np.float32(2 * np.pi / steps)
    if case.get("sin"):
        # sinusoidal RF model: kick = revolutionpart*(-V sin(q*bl2phase))/(energy per cell), bl2phase = 2 pi f_RF * (metres per
        # natural length)/c; V chosen such that the linearised kick is the same rotation angle (q*bl2phase <= 0.03 here, so the
        # cubic term is below 2e-4 relative: "for small amplitudes")
        frf, qscale, pscale, revpart = 5e8, 1.2e-3, 6.11e5, 1e-3
        bl2phase = 2 * np.pi * frf * qscale / 2.99792458e8
        V = float(np.tan(theta)) * pscale / (revpart * bl2phase)
        rf = s.map_rf_sin(a, b, revpart, V, frf, 0.0, it)
    else:
        rf = s.map_rf_linear(a, b, float(theta), 5e8, it)
    dr = s.map_drift(b, a, [float(theta), 0.0, 0.0], 1.3e9, it)
    out = [centroid(s.ps_data(a)[nb - 1], q, p)]
    for k in range(steps):
        s.map_apply(rf)
        s.map_apply(dr)
        out.append(centroid(s.ps_data(a)[nb - 1], q, p))
    return np.array(out), float(theta)


def rot(phi):
    return np.array([[np.cos(phi), -np.sin(phi)], [np.sin(phi), np.cos(phi)]])


def judge(xs, theta, steps, cls, nontriv, extra=0.0, tag="api"):
    x0 = xs[0]
    r0 = np.linalg.norm(x0)
    met = {}
    k = np.arange(len(xs))
    ref = np.array([rot(kk * theta) @ x0 for kk in k])
    dev = np.linalg.norm(xs - ref, axis=1)
    allow = C1 * theta * r0 + 2e-4 + extra
    met["rot_dev_over_allow"] = float(dev.max() / allow)
    if dev.max() > allow:
        kk = int(dev.argmax())
        # which way does it turn?
        dev_cw = np.linalg.norm(xs - np.array([rot(-i * theta) @ x0 for i in k]), axis=1).max()
        return Outcome(False, nontriv, cls, "%s: centroid after %d of %d steps is (%.5f, %.5f), rotation by %d*2pi/%d of (%.5f, %.5f) gives (%.5f, %.5f); deviation %.4g > %.4g%s" %
                       (tag, kk, steps, xs[kk][0], xs[kk][1], kk, steps, x0[0], x0[1], ref[kk][0], ref[kk][1], dev.max(), allow,
                        " (the opposite sense fits)" if dev_cw < allow else ""), sig="c03:%s:rotation" % tag, metrics=met)
    close = np.linalg.norm(xs[steps] - x0)
    met["closure_over_allow"] = float(close / (C2 * theta * r0 + 2e-4 + extra))
    if close > C2 * theta * r0 + 2e-4 + extra:
        return Outcome(False, nontriv, cls, "%s: orbit does not close after %d steps: start (%.5f, %.5f), end (%.5f, %.5f)" %
                       (tag, steps, x0[0], x0[1], xs[steps][0], xs[steps][1]), sig="c03:%s:closure" % tag, metrics=met)
    return Outcome(True, nontriv, cls, metrics=met)


def run_api(case):
    xs, theta = orbit(case, case["sx"], case["sy"])
    steps, it = case["steps"], case["it"]
    cls = ["it%d" % it, "shiftx" if case["sx"] else "noshiftx", "shifty" if case["sy"] else "noshifty", "nb%d" % case.get("nb", 1), "rf_sin" if case.get("sin") else "rf_lin"]
    r0 = np.linalg.norm(xs[0])
    nontriv = bool(r0 >= 0.2)
    o = judge(xs, theta, steps, cls, nontriv)
    if not o.ok:
        return o
    met = dict(o.metrics)
    # oracle 2: kick-drift matrix model in float64
    M = np.array([[1.0, -theta], [0.0, 1.0]]) @ np.array([[1.0, 0.0], [np.tan(theta), 1.0]])
    x = xs[0].copy()
    worst = 0.0
    for k in range(1, steps + 1):
        x = M @ x
        e = np.linalg.norm(xs[k] - x) / 1e-3
        worst = max(worst, e)
        if e > 1:
            return Outcome(False, nontriv, cls, "centroid after step %d is (%.6f, %.6f), the kick-drift model gives (%.6f, %.6f) (n=%d it=%d steps=%d shifts %g/%g)" %
                           (k, xs[k][0], xs[k][1], x[0], x[1], case["n"], it, steps, case["sx"], case["sy"]), sig="c03:api:model", metrics=met)
    met["model_dev_over_allow"] = worst
    # oracle 3: independence from where the grid is centred
    xs2, _ = orbit(case, case["sx2"], case["sy2"])
    e = np.linalg.norm(xs - xs2, axis=1).max() - np.linalg.norm(xs[0] - xs2[0])     # sampling the same density on another lattice
    met["centring_dev"] = float(e)
    if e > 2e-3:
        return Outcome(False, nontriv, cls, "the same distribution gives a different centroid orbit on a grid shifted by (%g, %g) cells instead of (%g, %g): max difference %.4g" %
                       (case["sx2"], case["sy2"], case["sx"], case["sy"], e), sig="c03:api:centring", metrics=met)
    return Outcome(True, nontriv, cls, metrics=met)


def fit_grid(L, n, it):
    """(n, largest admissible shift in cells): the start distribution has compact support of radius 4.5 sigma with sigma >=
    2.5 cells (resolved) around a centroid of radius >= 0.2; it has to stay clear of the border by it+2 cells for the whole
    orbit on the shifted grid.  Coarse grids cannot hold that for large shifts (a thorough run found n=32, L=4, shift 4
    cells, sigma = 2.5 cells: support reaching the border, first moment off by 1e-3) - the shift is limited, and the grid
    refined where even the unshifted grid is too coarse."""
    while True:
        delta = 2 * L / (n - 1)
        smin = max(0.4, 2.5 * delta)
        ms = int(np.floor((L - (it + 2) * delta - (4.5 * smin + 0.5)) / delta))
        if ms >= 0:
            return n, min(n // 8, ms)
        n += 8


@st.composite
def gaussians(draw, L, n, it, maxshift_cells):
    """mixture whose centroid has radius 0.2..2 and whose (compact, 4.5 sigma) support stays inside the grid for the whole orbit"""
    delta = 2 * L / (n - 1)
    room = L - maxshift_cells * delta - (it + 2) * delta
    ng = draw(st.integers(1, 3))
    gs = []
    for _ in range(ng):
        smin = max(0.4, 2.5 * delta)          # resolved: sigma >= 2.5 cells
        s = draw(st.floats(smin, max(smin, min(1.2, (room - 0.5) / 4.5))))
        rmax = max(0.2, min(2.0, room - 4.5 * s - 0.05))
        r = draw(st.floats(0.2, rmax))
        ph = draw(st.floats(0, 2 * np.pi))
        gs.append(dict(a=gen.f32(draw(st.floats(0.3, 1.0))), mq=gen.f32(r * np.cos(ph)), mp=gen.f32(r * np.sin(ph)), s=gen.f32(s)))
    return gs


def limit_diffusion(c, ms):
    """linear interpolation is diffusive (variance grows by about delta^2/6 per step and axis): keep the broadened
    distribution inside the grid for the whole period, otherwise raise the interpolation order"""
    if c["it"] != 2:
        return c
    n, L = c["n"], c["L"]
    delta = 2 * L / (n - 1)
    room = L - ms * delta - (c["it"] + 2) * delta
    worst = min(((room - np.hypot(g["mq"], g["mp"])) / 5.0) ** 2 - g["s"] ** 2 for g in c["gauss"])
    smax = int(worst * 6 / delta ** 2) if worst > 0 else 0
    if smax < 20:
        c["it"] = 3
    else:
        c["steps"] = min(c["steps"], smax)
    return c


@st.composite
def api_cases(draw):
    L = draw(st.sampled_from([4.0, 6.0, 8.0]))
    n = draw(st.integers(max(32, int(6.5 * L) + 1), 128))
    it = draw(st.sampled_from([2, 3, 4]))
    n, ms = fit_grid(L, n, it)

    def shift():
        return float(draw(st.integers(-ms, ms))) if draw(st.booleans()) else (gen.f32(draw(st.floats(-ms, ms))) if draw(st.booleans()) else 0.0)
    c = limit_diffusion(dict(n=n, L=L, it=it, steps=draw(st.integers(20, 400)), sx=shift(), sy=shift(), sx2=shift(), sy2=shift(),
                             gauss=draw(gaussians(L, n, it, ms))), ms)
    nb = draw(st.sampled_from([1, 1, 1, 2, 3]))
    if nb > 1:
        c["nb"] = nb
    if draw(st.integers(0, 3)) == 0:
        # "for small amplitudes": the cubic term of the sine is (q*bl2phase)^2/6 relative; amplitudes <= 0.3 keep it far
        # below the model oracle's tolerance (at r = 1.9 it reached 0.7 of it)
        c["sin"] = True
        for g in c["gauss"]:
            sc = 0.3 / max(0.3, np.hypot(g["mq"], g["mp"]))
            g["mq"], g["mp"] = gen.f32(g["mq"] * sc), gen.f32(g["mp"] * sc)
    return c


# ------------------------------------------------------------------ CLI
def run_cli(case):
    wd = cli.scratch("c03")
    n, L, steps = case["n"], case["L"], case["steps"]
    delta = 2 * L / (n - 1)
    sx, sy = case["sx"], case["sy"]
    q = -L - sx * delta + np.arange(n) * delta
    p = -L - sy * delta + np.arange(n) * delta
    dens = density(case, q, p).astype(np.float32)
    cli.mkds(os.path.join(wd, "start.h5"), "/PhaseSpace/data", dens[None, None])
    o = dict(GridSize=n, PhaseSpaceSize=2 * L, StepsPerTs=steps, rotations=float(np.float32((steps - 0.5) / steps)), outstep=1,
             DampingTime=0.0, VacuumGap=0.0, RenormalizeCharge=-1, InterpolationPoints=case["it"], LinearRF=case["linear"],
             PhaseSpaceShiftX=sx, PhaseSpaceShiftY=sy, InitialDistFile="start.h5")
    if case.get("off_via_fptype"):
        # the other way to run without damping and diffusion: FPType=0 ("no Fokker-Planck term") while the damping time keeps
        # its default (calculated from the ring) - main then builds the Fokker-Planck map object with nothing in it
        # (round-9 seeds C03i / C03j lose the 'none' case in that constructor)
        o.pop("DampingTime")
        o["FPType"] = 0
    if case["alpha1"]:
        o["alpha1"] = case["alpha1"]
        o["alpha2"] = case["alpha2"]
    if case.get("fs_route"):
        # the documented second way to fix the optics: the synchrotron frequency is given, the momentum compaction factor
        # is derived from it (a different alpha0 on the command line is overridden; round-6 seed C03f computes the natural
        # bunch length - the phase scale of the sinusoidal RF - from that ignored option)
        a0 = gen.f32(case["fs_route"])
        d0 = cfggen.derive(dict(o, alpha0=a0))
        o["SynchrotronFrequency"] = gen.f32(d0["fs"])
        o["alpha0"] = gen.f32(case["decoy_alpha0"])
    if case.get("via_rev"):
        # the documented second way to give the step count: StepsPerRevolution overwrites StepsPerTs (which keeps a decoy)
        d0 = cfggen.derive(o)
        o["StepsPerRevolution"] = float(steps * d0["fs"] / d0["frev"])
        o["StepsPerTs"] = case["decoy"]
    r = cli.run(["-c", "/dev/null", "-o", "r.h5"] + cli.optargs(o), wd)
    cls = ["cli", "linear" if case["linear"] else "sinus", "it%d" % case["it"], "StepsPerRevolution" if case.get("via_rev") else "StepsPerTs"] + (["fs_route"] if case.get("fs_route") else []) + (["off_via_fptype"] if case.get("off_via_fptype") else [])
    if r.rc != 0 or "Finished." not in r.out:
        return Outcome(False, True, cls, "run failed: %s %s" % (r.out[-300:], r.err[-300:]), sig="c03:cli:runfail")
    h = cli.H5(os.path.join(wd, "r.h5"))
    xs = np.stack([h["/BunchPosition/data"][:, 0].astype(np.float64), h["/EnergyAverage/data"][:, 0].astype(np.float64)], axis=1)
    if len(xs) != steps + 1:
        return Outcome(False, True, cls, "expected %d records, got %d" % (steps + 1, len(xs)), sig="c03:cli:records")
    theta = 2 * np.pi / steps
    r0 = np.linalg.norm(xs[0])
    if case.get("off_via_fptype"):
        # both ways of running "with no damping" must give the same centroid track (the rotation oracle below has a
        # first-order allowance of 2 pi/steps that would hide a slow inward spiral)
        o2 = dict(o, DampingTime=0.0)
        o2.pop("FPType")
        r2 = cli.run(["-c", "/dev/null", "-o", "r2.h5"] + cli.optargs(o2), wd)
        if r2.rc != 0 or "Finished." not in r2.out:
            return Outcome(False, True, cls, "run failed: %s %s" % (r2.out[-300:], r2.err[-300:]), sig="c03:cli:runfail")
        h2 = cli.H5(os.path.join(wd, "r2.h5"))
        xs2 = np.stack([h2["/BunchPosition/data"][:, 0].astype(np.float64), h2["/EnergyAverage/data"][:, 0].astype(np.float64)], axis=1)
        dist = float(np.linalg.norm(xs - xs2, axis=1).max()) if len(xs2) == len(xs) else 1e9
        if dist > 1e-3 * r0 + 2e-4:
            return Outcome(False, bool(r0 >= 0.2), cls, "cli: with FPType=0 (no Fokker-Planck term, default damping time) the centroid track differs by %.4g from the run with DampingTime=0 (start radius %.3f, %d steps): something still damps" %
                           (dist, r0, steps), sig="c03:cli:nodamping_routes", metrics={"nodamping_routes_dist": dist / (1e-3 * r0 + 2e-4)})
    extra = 0.0
    if not case["linear"]:
        # sin(x) = x - x^3/6: relative force error (q*bl2phase)^2/6 accumulated over a period, plus the synchronous-phase offset
        d = cfggen.derive(o)
        k2 = (d["bl"] * 2 * np.pi * d["fRF"] / cfggen.C) ** 2
        extra = 2 * np.pi * r0 ** 3 * k2 / 6 * 1.5 + 1e-3
    if case["alpha1"]:
        d = cfggen.derive(o)
        extra += 2 * np.pi * (abs(case["alpha1"]) * d["sE"] * (r0 + 1.5) ** 2 + abs(case["alpha2"]) * d["sE"] ** 2 * (r0 + 1.5) ** 3) / d["alpha0"] * 1.5
    return judge(xs, theta, steps, cls, bool(r0 >= 0.2), extra=extra, tag="cli")


@st.composite
def cli_cases(draw):
    L = draw(st.sampled_from([4.0, 6.0, 8.0]))
    n = draw(st.integers(max(32, int(6.5 * L) + 1), 96))
    it = draw(st.sampled_from([2, 3, 4]))
    n, ms = fit_grid(L, n, it)
    linear = draw(st.booleans())
    c = dict(n=n, L=L, it=it, steps=draw(st.integers(20, 200)), linear=linear,
             sx=float(draw(st.integers(-ms, ms))) if draw(st.booleans()) else 0.0,
             sy=float(draw(st.integers(-ms, ms))) if draw(st.booleans()) else 0.0,
             gauss=draw(gaussians(L, n, it, ms)), alpha1=0.0, alpha2=0.0)
    c["via_rev"] = draw(st.integers(0, 2)) == 0
    c["off_via_fptype"] = draw(st.integers(0, 2)) == 0
    if draw(st.integers(0, 2)) == 0:
        c["fs_route"] = float(10 ** draw(st.floats(-3.3, -2.0)))
        c["decoy_alpha0"] = draw(st.sampled_from([4e-3, 1e-3, 2e-2, 5e-4]))
    c["decoy"] = draw(st.sampled_from([1000, 50, 333]))
    if draw(st.integers(0, 3)) == 0:
        c["alpha1"] = gen.f32(draw(st.floats(-2e-3, 2e-3)))
        c["alpha2"] = gen.f32(draw(st.floats(-1e-2, 1e-2)))
    if not linear:
        for g in c["gauss"]:
            sc = 0.3 / max(0.3, np.hypot(g["mq"], g["mp"]))
            g["mq"], g["mp"] = gen.f32(g["mq"] * sc), gen.f32(g["mp"] * sc)
    return limit_diffusion(c, ms)


def subs(tier):
    return [Sub("api", api_cases(), run_api, quick=480, thorough=20000, shrink_budget=60),
            Sub("cli", cli_cases(), run_cli, quick=160, thorough=2000, needs=("rel", "h5x", "shim"), shrink_budget=30)]
