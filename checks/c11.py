"""C11 — continuing from a results file equals never having stopped (DESIGN.md §3 C11)."""
import os
import numpy as np
from hypothesis import strategies as st

from vlib import gen, cli, cfggen
from vlib.driver import Outcome, Sub

LEVEL = "exploration"
RULE = ("continue: generated single-bunch configuration (grid, steps, impedance none / collimator / resistive wall / CSR, "
        "renormalisation -1/0/4, interpolation, shifts), split point L1 + L2 steps, chosen start record (default, -1, -2, 0, k); "
        "three real runs: A uninterrupted, B1 first leg, B2 '-i b1.h5'.  Oracles: first record of B2 = chosen record of B1 "
        "(bitwise without renormalisation, one common factor otherwise); final phase space of B2 = final of A (bitwise "
        "without renormalisation, 1e-5 otherwise).  non-trivial = L1 >= 5, L2 >= 5 and a non-stationary start (zoom != 1).  "
        "refuse: start file missing / empty / garbage / text / HDF5 without phase space / two-bunch results / truncated: a "
        "message, no results file, simulation not started")
ASSUMPTIONS = ["same FFTW wisdom directory for A, B1, B2 (warmed by a discarded run)"]
TOLERANCES = {"no_renormalisation": "bitwise", "with_renormalisation_rel_to_max": "2e-5 + 4 x charge drift of the uninterrupted run + 4 x |1 - Simpson integral of the unit Gaussian on this grid|", "loaded_common_factor": "3e-7 residual"}


def run_continue(case):
    wd = cli.scratch("c11")
    o = dict(case["opts"])
    d = cfggen.derive(o)
    steps = d["steps"]
    L1, L2 = case["L1"], case["L2"]
    ren = o.get("RenormalizeCharge", 0)

    def rot(L):
        return float(np.float32((L - 0.5) / steps))      # laststep = ceil(steps * float(rotations)) == L
    base = ["-c", "/dev/null"]
    oA = dict(o, rotations=rot(L1 + L2), outstep=case["outstep"], SavePhaseSpace=1)
    warm = cli.run(base + ["-o", "w.h5"] + cli.optargs(dict(oA, rotations=rot(1))), wd)
    rA = cli.run(base + ["-o", "a.h5"] + cli.optargs(oA), wd)
    oB1 = dict(o, rotations=rot(L1), outstep=case["outstep"], SavePhaseSpace=1)
    # both endings are accepted for results files, for the first leg and for the continued run independently
    e1, e2 = case.get("ext1", "h5"), case.get("ext2", "h5")
    b1name, b2name = "b1." + e1, "b2." + e2
    rB1 = cli.run(base + ["-o", b1name] + cli.optargs(oB1), wd)
    for r in (rA, rB1):
        if r.rc != 0 or "Finished." not in r.out:
            return Outcome(False, True, ["runfail"], "run failed: %s %s" % (r.out[-300:], r.err[-300:]), sig="c11:runfail")
    hA, hB1 = cli.H5(os.path.join(wd, "a.h5")), cli.H5(os.path.join(wd, b1name))
    tB1 = np.rint(hB1["/PhaseSpace/axis0"].astype(np.float64) * steps).astype(int)
    nrec = len(tB1)
    sel = case["startstep"]
    oB2 = dict(o, outstep=case["outstep"], SavePhaseSpace=case["save2"], InitialDistFile=b1name)
    if sel is None:
        idx = nrec - 1
    else:
        oB2["InitialDistStep"] = sel
        idx = (nrec + sel) % nrec
    start_step = int(tB1[idx])
    remaining = L1 + L2 - start_step
    oB2["rotations"] = rot(remaining)
    if case.get("legacy3") and not case.get("inplace"):
        # the older results-file layout /PhaseSpace/data[record][x][y] (no bunch axis) is still accepted as a start file:
        # the same records, written in that layout, must continue exactly like the file they were taken from
        # (round-9 seed C11i always loads record 0 from such a file)
        lname = "b1legacy." + e1
        cli.mkds(os.path.join(wd, lname), "/PhaseSpace/data", np.ascontiguousarray(hB1["/PhaseSpace/data"][:, 0]))
        oB2["InitialDistFile"] = lname
    if case.get("inplace"):
        # continuing "in place": the results go to the very file the run starts from (what rerunning with the saved .cfg and
        # -i does).  The comparison keeps its own copy of the first leg.
        import shutil
        shutil.copy(os.path.join(wd, b1name), os.path.join(wd, b2name))
        oB2["InitialDistFile"] = b2name
    rB2 = cli.run(base + ["-o", b2name] + cli.optargs(oB2), wd)
    if rB2.rc != 0 or "Finished." not in rB2.out:
        return Outcome(False, True, ["runfail"], "continued run failed: %s %s" % (rB2.out[-400:], rB2.err[-300:]), sig="c11:runfail2")
    hB2 = cli.H5(os.path.join(wd, b2name))
    cls = ["ren%d" % (ren if ren <= 0 else 1), "sel_default" if sel is None else "sel%d" % (0 if sel >= 0 else 1),
           "wake" if o.get("VacuumGap", 0.03) != 0 else "nowake"] + (["inplace"] if case.get("inplace") else []) + (["legacy_layout"] if case.get("legacy3") and not case.get("inplace") else [])
    nontriv = bool(L1 >= 5 and L2 >= 5 and o.get("InitialDistZoom", 1.0) != 1.0)
    met = {}
    # 1. loads exactly
    first = hB2["/PhaseSpace/data"][0, 0]
    src = hB1["/PhaseSpace/data"][idx, 0]
    if ren < 0:
        if (gen.bits(first) != gen.bits(src)).any():
            return Outcome(False, nontriv, cls, "first phase space of the continued run is not the stored record %d of the start file (max |diff| %.3g; InitialDistStep=%s, %d records)" %
                           (idx, np.abs(first.astype(np.float64) - src).max(), sel, nrec), sig="c11:load:exact")
    else:
        x, y = src.astype(np.float64), first.astype(np.float64)
        f = (x * y).sum() / (x * x).sum()
        res = np.abs(y - f * x).max() / np.abs(x).max()
        met["load_residual"] = res
        if not (0.5 < f < 2.0) or res > 3e-7:
            return Outcome(False, nontriv, cls, "first phase space of the continued run is not a multiple of the stored record %d (factor %.6g, residual %.3g)" % (idx, f, res), sig="c11:load:factor", metrics=met)
        if ren == 0:
            # RenormalizeCharge = 0: no renormalisation in the loop; the one-off normalisation before the loop rescales by
            # the population the grid was CONSTRUCTED with (the unit Gaussian's integral G on this grid), never by the
            # charge of the loaded record.  "Loads exactly the stored values" therefore means factor 1/G here, whatever
            # charge the first leg has lost (round-6 seed C11f turns it into 1/charge of the record)
            n0 = d["n"]
            dl0 = d["pq"] / (n0 - 1)
            w0 = gen.simpson_weights(n0, dl0)
            q0 = -d["pq"] / 2 - o.get("PhaseSpaceShiftX", 0.0) * dl0 + np.arange(n0) * dl0
            p0 = -d["pq"] / 2 - o.get("PhaseSpaceShiftY", 0.0) * dl0 + np.arange(n0) * dl0
            G0 = (w0 * np.exp(-q0 * q0 / 2) / np.sqrt(2 * np.pi)).sum() * (w0 * np.exp(-p0 * p0 / 2) / np.sqrt(2 * np.pi)).sum()
            met["load_factor_dev"] = abs(f * G0 - 1)
            popsrc = float(hB1["/BunchPopulation/data"][-1, 0]) if idx == nrec - 1 else None
            if popsrc is not None and abs(popsrc - 1) > 2e-4 and abs(f * popsrc - 1) < 3e-6 and abs(f * G0 - 1) > 30 * abs(f * popsrc - 1):
                return Outcome(False, nontriv, cls, "RenormalizeCharge=0: the loaded record %d was rescaled by %.7g = 1/(its own charge %.7g) instead of being loaded as stored (construction factor 1/G = %.7g)" %
                               (idx, f, popsrc, 1 / G0), sig="c11:load:rescaled", metrics=met)
    # 2. equivalence
    fa, fb = hA["/PhaseSpace/data"][-1, 0], hB2["/PhaseSpace/data"][-1, 0]
    tA = hA["/PhaseSpace/axis0"][-1]
    if int(round(float(tA) * steps)) != L1 + L2:
        return Outcome(False, nontriv, cls, "uninterrupted run ends at step %g, expected %d" % (float(tA) * steps, L1 + L2), sig="c11:length")
    if int(round(float(hB2["/PhaseSpace/axis0"][-1]) * steps)) != remaining:
        return Outcome(False, nontriv, cls, "continued run ends at its step %g, expected %d" % (float(hB2["/PhaseSpace/axis0"][-1]) * steps, remaining), sig="c11:length2")
    diff = np.abs(fa.astype(np.float64) - fb).max() / np.abs(fa).max()
    met["final_rel"] = diff
    if ren < 0:
        if (gen.bits(fa) != gen.bits(fb)).any():
            return Outcome(False, nontriv, cls, "without renormalisation the continued run (from step %d of %d+%d) must end bit-identical to the uninterrupted run; max rel diff %.3g" %
                           (start_step, L1, L2, diff), sig="c11:equiv:exact", metrics=met)
    else:
        # A restart shifts the renormalisation schedule (the step counter starts again at 0) and, for RenormalizeCharge >= 0,
        # renormalises the loaded distribution once.  Both are rounding-level corrections exactly as long as the charge is
        # conserved; the allowance therefore grows with the charge drift the uninterrupted run itself reports.
        popA = hA["/BunchPopulation/data"][:, 0].astype(np.float64)
        drift = float(np.abs(popA - 1).max())
        # (the wake of a step is computed from the profile BEFORE that step's renormalisation, so even with an unshifted
        # schedule the two runs see profiles that differ by the momentary charge deficit; and a restart normalises the loaded
        # data once with the integral of the freshly constructed unit Gaussian, which on a coarse or shifted grid is not 1)
        n_ = d["n"]
        dl = d["pq"] / (n_ - 1)
        w_ = gen.simpson_weights(n_, dl)
        qa = -d["pq"] / 2 - o.get("PhaseSpaceShiftX", 0.0) * dl + np.arange(n_) * dl
        pa = -d["pq"] / 2 - o.get("PhaseSpaceShiftY", 0.0) * dl + np.arange(n_) * dl
        G = (w_ * np.exp(-qa * qa / 2) / np.sqrt(2 * np.pi)).sum() * (w_ * np.exp(-pa * pa / 2) / np.sqrt(2 * np.pi)).sum()
        tol = 2e-5 + 4 * drift + 4 * abs(1 - G)
        met["drift"] = drift
    if ren >= 0 and diff > tol:
        return Outcome(False, nontriv, cls, "continued run (from step %d of %d+%d, RenormalizeCharge=%d) ends %.3g (relative to the maximum) away from the uninterrupted run" %
                       (start_step, L1, L2, ren, diff), sig="c11:equiv:tol", metrics=met)
    for ds in ("/BunchProfile/data", "/WakePotential/data"):
        if ds in hA.ds and hA[ds].size and ds in hB2.ds and hB2[ds].size:
            a, b = hA[ds][-1].astype(np.float64), hB2[ds][-1].astype(np.float64)
            e = np.abs(a - b).max() / (np.abs(a).max() + 1e-30)
            if (ren < 0 and e != 0) or (ren >= 0 and e > 2.5 * tol):
                return Outcome(False, nontriv, cls, "final %s of the continued run differs from the uninterrupted run (rel %.3g)" % (ds, e), sig="c11:equiv:%s" % ds, metrics=met)
    return Outcome(True, nontriv, cls, metrics=met)


@st.composite
def continue_cases(draw):
    o = draw(cfggen.base_config(nmin=16, nmax=48, max_laststep=5, multibunch=False, wake=("none", "none", "collimator", "wall", "csr")))
    o.pop("rotations", None)
    if o.get("VacuumGap", 0.03) != 0:
        # "impedances below threshold": a weak current and a resolved step, otherwise the microwave instability amplifies
        # rounding-level differences exponentially and "within rounding" is meaningless
        o["BunchCurrent"] = [gen.f32(draw(st.floats(5e-5, 4e-4)))]
        o["StepsPerTs"] = draw(st.integers(40, 200))
        o["InterpolationPoints"] = draw(st.sampled_from([2, 3, 4]))
    o["RenormalizeCharge"] = draw(st.sampled_from([-1, -1, 0, 4]))
    o["InitialDistZoom"] = draw(st.sampled_from([0.7, 0.85, 0.7, 0.85, 1.0]))
    # mostly charge-conserving configurations (bunch well inside the grid, real interpolation): only there is
    # renormalisation a rounding-level correction and the 2e-5 bound meaningful
    if draw(st.integers(0, 4)) > 0:
        o["GridSize"] = draw(st.integers(32, 48))
        o["InterpolationPoints"] = draw(st.sampled_from([2, 3, 4]))
        o["StepsPerTs"] = draw(st.integers(40, 200))
        for k in ("PhaseSpaceShiftX", "PhaseSpaceShiftY"):
            if k in o:
                o[k] = gen.f32(max(-2.0, min(2.0, o[k])))
        if "padding" in o and not o.get("RoundPadding", True):
            o.pop("padding")
            o.pop("RoundPadding")
    o["FPTrack"] = 0
    if o.get("DampingTime") is None and draw(st.booleans()):
        o["DampingTime"] = 0.0
    steps = o["StepsPerTs"]
    # (one_of() drops duplicate alternatives, so the weighting is drawn explicitly: one leg in six is 1-4 steps short)
    L1 = draw(st.integers(1, 4)) if draw(st.integers(0, 5)) == 5 else draw(st.integers(5, 60))
    L2 = draw(st.integers(1, 4)) if draw(st.integers(0, 5)) == 5 else draw(st.integers(5, 60))
    outstep = draw(st.sampled_from([1, 2, 5, max(1, L1)]))
    sel = draw(st.sampled_from([None, None, -1, -2, 0, 1, 3]))
    c = dict(opts=o, L1=L1, L2=L2, outstep=outstep, startstep=sel, save2=draw(st.sampled_from([0, 1, 3])))
    if draw(st.integers(0, 4)) == 0:
        c["inplace"] = True
    if draw(st.integers(0, 4)) == 0:
        c["legacy3"] = True
    if draw(st.integers(0, 2)) == 0:
        c["ext1"], c["ext2"] = draw(st.sampled_from([("hdf5", "h5"), ("h5", "hdf5"), ("hdf5", "hdf5")]))
    return c


# ------------------------------------------------------------------ refusal
def run_refuse(case):
    wd = cli.scratch("c11r")
    kind = case["kind"]
    o = dict(GridSize=16, StepsPerTs=10, rotations=0.5, outstep=1, VacuumGap=0.0)
    name = "start.h5"
    path = os.path.join(wd, name)
    r_ = gen.rng(case["dseed"])
    if kind == "missing":
        name = "nothere.h5"
    elif kind == "empty":
        open(path, "wb").close()
    elif kind == "garbage":
        open(path, "wb").write(r_.integers(0, 256, size=case["size"], dtype=np.uint8).tobytes())
    elif kind == "text":
        open(path, "w").write("this is not an HDF5 file\n" * 5)
    elif kind == "nodataset":
        cli.mkds(path, "/SomethingElse/data", np.zeros((1, 1, 16, 16), np.float32))
    elif kind in ("twobunch", "truncated"):
        # a results file of a run with several bunches (2, 3, 4 or 9 of them) ...
        nbun = case.get("nbun", 2)
        o2 = dict(o, BunchCurrent=[1e-3] * nbun if kind == "twobunch" else [1e-3], RoundPadding=True)
        if kind == "twobunch":
            o2["alpha0"] = gen.f32(cfggen.alpha0_for_spacing(1.5, o2))
        r0 = cli.run(["-c", "/dev/null", "-o", name] + cli.optargs(o2), wd)
        if r0.rc != 0 or not os.path.exists(path):
            return Outcome(True, False, ["setupfail"], discard=True)
        if kind == "truncated":
            raw = open(path, "rb").read()
            open(path, "wb").write(raw[:max(8, int(len(raw) * case["frac"]))])
        for f in ("start.h5.cfg", "start.h5.log"):
            if os.path.exists(os.path.join(wd, f)):
                os.remove(os.path.join(wd, f))
    if kind == "twobunch" and case.get("grid2"):
        # ... offered to a run with another grid size, e.g. the one that makes the total number of cells agree
        # (4 bunches of 16x16 = one grid of 32x32: round-8 seed C11j pours them into it)
        o = dict(o, GridSize=int(case["grid2"]))
    r = cli.run(["-c", "/dev/null", "-o", "out.h5", "-i", name] + cli.optargs(o), wd)
    cls = ["refuse_" + kind] + (["nbun%d" % case.get("nbun", 2)] if kind == "twobunch" else [])
    log = open(os.path.join(wd, "out.h5.log")).read() if os.path.exists(os.path.join(wd, "out.h5.log")) else ""
    if r.signal or r.timed_out:
        return Outcome(False, True, cls, "start file (%s): program died from signal %s" % (kind, r.signal), sig="c11:refuse:crash")
    if "Starting the simulation" in r.out + log or os.path.exists(os.path.join(wd, "out.h5")):
        return Outcome(False, True, cls, "unusable start file (%s) was not refused: the simulation started / a results file was written" % kind, sig="c11:refuse:started:%s" % kind)
    if not (r.out + r.err).strip() or not any(w in (r.out + r.err) for w in ("rror", "nable", "annot", "nknown", "nexpected")):
        return Outcome(False, True, cls, "unusable start file (%s): no message naming a problem (%r)" % (kind, (r.out + r.err)[-300:]), sig="c11:refuse:nomsg:%s" % kind)
    return Outcome(True, True, cls)


@st.composite
def refuse_cases(draw):
    c = dict(kind=draw(st.sampled_from(["missing", "empty", "garbage", "text", "nodataset", "twobunch", "twobunch", "truncated"])),
             dseed=draw(gen.seeds()), size=draw(st.sampled_from([1, 7, 64, 4096])), frac=draw(st.floats(0.05, 0.95)))
    if c["kind"] == "twobunch":
        c["nbun"] = draw(st.sampled_from([2, 2, 3, 4, 4, 9]))
        c["grid2"] = draw(st.sampled_from([0, 0, 32, 48, 16 * int(round(c["nbun"] ** 0.5)), 16 * c["nbun"]]))
    return c


def subs(tier):
    return [Sub("continue", continue_cases(), run_continue, quick=320, thorough=10000, needs=("rel", "h5x"), shrink_budget=40),
            Sub("refuse", refuse_cases(), run_refuse, quick=120, thorough=2400, needs=("rel", "h5x"), shrink_budget=20)]
