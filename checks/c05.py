"""C05 — the stationary bunch satisfies the Haissinski equation with its own wake (DESIGN.md §3 C05)."""
import os
import numpy as np
from hypothesis import strategies as st

from vlib import gen, cli, cfggen
from vlib.driver import Outcome, Sub

LEVEL = "exploration"
RULE = ("real runs: impedance family in {collimator (pure resistance), resistive wall, free-space CSR, parallel-plates CSR, "
        "generated impedance file (smooth passive Z)}; the bunch current is constructed from a pilot run (wake of the unit "
        "Gaussian at a reference current, the wake being linear in the current) so that the potential-well distortion D = max "
        "over the core of |(1/theta) int W dq - mean| hits a drawn target in 0.05..1; GridSize 64/96/128, StepsPerTs 100..400 (one case in six: 1000/2000/4000 steps per period from a start zoom of 0.5 or 2), "
        "damping time 2..8 synchrotron periods (per-step decrement inside the stable range), start zoom 0.7..1.5, run length 8 "
        "damping times.  Oracle on the last record: std over the core of ln rho + q^2/2 - (1/theta) int W dq.  non-trivial = "
        "D >= 0.05 and the wrong-sign residual is >= 5 x the tolerance; non-stationary runs are discarded and counted")
ASSUMPTIONS = ["'has become stationary' is decided after 8 configured damping times and verified on the last 10 % of the records",
               "tolerance (0.02+theta)*D + 0.4*delta^2 + 0.003 calibrated: observed 0.2*delta^2 at small D, 0.75*theta*D at D = 1"]
TOLERANCES = {"haissinski_residual_std": "(cD + theta)*D + cB*delta^2 + 0.003, cD = 0.02 (cubic) / 0.07 (quadratic interpolation), cB = 1.6 (3-point stencil) / 0.8 / 0.4", "energy_spread": "tau_disc(C04) + 0.005 + 0.03*D", "stationarity": 0.01}

FAM = {"collimator": dict(UseCSR=False, VacuumGap=0.03, CollimatorRadius=0.005),
       "wall": dict(UseCSR=False, VacuumGap=0.03, WallConductivity=1e6),
       "freespace": dict(VacuumGap=-1.0),
       "plates": dict(VacuumGap=0.03),
       "file": dict(VacuumGap=0.0)}


def analyse(h, steps, rec, b=0):
    rho = h["/BunchProfile/data"][rec, b].astype(np.float64)
    w = h["/WakePotential/data"][rec, b].astype(np.float64)
    q = h["/Info/AxisValues_z"].astype(np.float64)
    dq = q[1] - q[0]
    theta = 2 * np.pi / steps
    f = w * dq / theta                      # W in natural energy units per unit synchrotron phase
    U = np.concatenate([[0.0], np.cumsum((f[1:] + f[:-1]) / 2 * dq)])
    core = rho >= 0.02 * rho.max()
    lr = np.log(np.maximum(rho[core], 1e-300))
    r = lr + q[core] ** 2 / 2 - U[core]
    rw = lr + q[core] ** 2 / 2 + U[core]
    D = np.abs(U[core] - U[core].mean()).max()
    return float(np.std(r)), float(np.std(rw)), float(D)


def reference_wake(h, d):
    """wake potentials recomputed from the stored profiles, the stored impedance and the absolute scale implied by the
    machine parameters (the C06 reference model): cells per step, one row per bunch"""
    n, nb = d["n"], d["nb"]
    N = d["nmax_wake"]
    Z = h["/Impedance/data/real"].astype(np.complex128) + 1j * h["/Impedance/data/imag"]
    delta = float(np.float32(d["pq"] / (n - 1)))
    scale = d["Ib"] * d["dt"] * cfggen.C / d["bl"] / (delta * d["dE"])
    sp = d["spacing_bins"] if d["nbuckets"] > 1 else 0
    kk = np.arange(N // 2)
    E = np.exp(-2j * np.pi * np.outer(kk, np.arange(N)) / N)
    P = np.zeros(N)
    for b in range(nb):
        P[d["buckets"][b] * sp: d["buckets"][b] * sp + n] = h["/BunchProfile/data"][-1, b].astype(np.float64)
    Y = Z[:N // 2] * (E @ P)
    wv = np.real(Y[0] + 2 * (np.conj(E[1:]).T @ Y[1:]))
    return np.stack([scale / N * wv[d["buckets"][b] * sp: d["buckets"][b] * sp + n] for b in range(nb)])


def run_case(case):
    wd = cli.scratch("c05")
    n, steps, P, fam = case["n"], case["steps"], case["P"], case["family"]
    o = dict(GridSize=n, StepsPerTs=steps, InitialDistZoom=1.0, InterpolationPoints=case["it"], derivation=case["deriv"], **FAM[fam])
    if case.get("clamped"):
        o["InterpolateClamped"] = True      # documented option; must not change the CPU result (round-9 seed C05i)
    if case.get("shiftx") or case.get("shifty"):
        o["PhaseSpaceShiftX"], o["PhaseSpaceShiftY"] = case.get("shiftx", 0.0), case.get("shifty", 0.0)
    d = cfggen.derive(o)
    if fam == "file":
        N = d["padded_bins"]
        k = np.arange(N)
        Z = case["zr"] * (1 + 0.3 * np.sin(k / 17.0)) + 1j * case["zl"] * k / N * 100
        with open(os.path.join(wd, "z.dat"), "w") as f:
            for i in range(N):
                f.write("%d %.9g %.9g\n" % (i, Z[i].real, Z[i].imag))
        o["Impedance"] = "z.dat"
    I0 = 1e-3
    pat = [1.0]
    if case.get("ratio"):
        # a second bunch with a different current: every bunch must balance against ITS OWN wake
        pat = [1.0, case["ratio"]] if case.get("first_strong", True) else [case["ratio"], 1.0]
        o["RoundPadding"] = True
        o["alpha0"] = gen.f32(cfggen.alpha0_for_spacing(case["sps"], dict(o, BunchCurrent=pat)))
    o["DampingTime"] = P / cfggen.derive(dict(o, BunchCurrent=pat))["fs"]
    cls = [fam, "n%d" % n] + (["twobunch"] if len(pat) > 1 else []) + (["finesteps"] if steps >= 1000 else []) \
        + (["near_stability_limit"] if 2.0 / (P * steps) / (12.0 / (n - 1)) ** 2 >= 0.4 else [])
    pilot = dict(o, BunchCurrent=[I0 * x for x in pat], rotations=float(np.float32(0.5 / steps)), outstep=1)
    r = cli.run(["-c", "/dev/null", "-o", "p.h5"] + cli.optargs(pilot), wd, timeout=600)
    if r.rc != 0 or "Finished." not in r.out:
        return Outcome(False, True, cls, "pilot run failed: %s %s" % (r.out[-300:], r.err[-300:]), sig="c05:runfail")
    hp = cli.H5(os.path.join(wd, "p.h5"))
    D0 = max(analyse(hp, steps, 0, b)[2] for b in range(len(pat)))
    if not D0 > 0:
        return Outcome(True, False, cls + ["no_pilot_wake"], discard=True)
    I = I0 * case["D"] / D0
    if I > 50.0:
        # the impedance is so weak for this bunch length (e.g. fully shielded CSR) that no sane current reaches the target
        return Outcome(True, False, cls + ["impedance_too_weak"], discard=True)
    nrec = 60
    cur = [I * x for x in pat]
    full = dict(o, BunchCurrent=cur, rotations=8.0 * P, outstep=max(1, int(8 * P * steps / nrec)), InitialDistZoom=case["zoom"])
    r = cli.run(["-c", "/dev/null", "-o", "r.h5"] + cli.optargs(full), wd, timeout=900)
    if r.rc != 0 or "Finished." not in r.out:
        return Outcome(False, True, cls, "run failed: %s %s" % (r.out[-300:], r.err[-300:]), sig="c05:runfail")
    h = cli.H5(os.path.join(wd, "r.h5"))
    prof = h["/BunchProfile/data"].astype(np.float64)
    if not np.isfinite(prof).all():
        return Outcome(True, False, cls + ["unstable"], discard=True)
    k = max(2, prof.shape[0] // 10)
    stat = np.abs(prof[-k:] - prof[-1]).max() / prof[-1].max()
    if stat > 0.01:
        if fam in ("collimator", "file") and case["D"] <= 0.5 and len(pat) == 1:
            # a weak, purely resistive / smooth passive impedance far below any instability threshold: "has become
            # stationary" is part of what the property presumes for it.  8 configured damping times without a stationary
            # profile is then a failure of the relaxation itself (on the unchanged tree these families never fail to settle;
            # round-9 seed C05i made most runs restless and hid behind the discard)
            return Outcome(False, True, cls + ["not_stationary"], "a single bunch with a weak %s impedance (target distortion D=%.3f) has not become stationary after 8 configured damping times: profile still changing by %.3g of its maximum over the last tenth of the run (n=%d, steps=%d, it=%d, stencil %d%s)" %
                           (fam, case["D"], stat, n, steps, case["it"], case["deriv"], ", clamped interpolation" if case.get("clamped") else ""), sig="c05:not_stationary")
        return Outcome(True, False, cls + ["not_stationary"], discard=True)
    dd = cfggen.derive(full)
    wref = reference_wake(h, dd)
    delta = 12.0 / (n - 1)
    cB = 1.6 if case["deriv"] == 3 else (0.8 if case["it"] == 3 else 0.4)
    cD = 0.07 if case["it"] == 3 else 0.02
    met = {}
    nontriv = False
    h.ds["/WakePotential/data"] = np.array(h["/WakePotential/data"], copy=True)
    for b in range(dd["nb"]):
        res, wrong, D = analyse(h, steps, -1, b)
        # discretisation error of the stationary state depends on the derivative stencil and the interpolation order
        # (calibrated: 0.9/0.45/0.2 delta^2 at small D, it=3 adds about 0.05*D); one step's splitting error is O(theta)*D
        tol = (cD + 2 * np.pi / steps) * D + cB * delta ** 2 + 0.003
        nt = bool(D >= 0.05 and wrong >= 5 * tol)
        nontriv = nontriv or nt
        met["residual_over_tol"] = max(met.get("residual_over_tol", 0), res / tol)
        kcls = "residual_over_tol[%s,it%d,d%d%s%s%s]" % (fam, case["it"], case["deriv"], ",fine" if steps >= 1000 else "",
                                                         ",limit" if "near_stability_limit" in cls else "", ",short" if case["zoom"] < 0.5 else "")
        met[kcls] = max(met.get(kcls, 0), res / tol)
        met["D"] = max(met.get("D", 0), D)
        if res > tol:
            return Outcome(False, nt, cls, "stationary bunch %d of %d does not satisfy ln rho + q^2/2 - (1/dtheta) int W dq = const with its own recorded wake: std over the core %.4f > %.4f (with the opposite sign of the wake term: %.4f); %s, D=%.3f, n=%d, steps=%d, currents %s A" %
                           (b, dd["nb"], res, tol, wrong, fam, D, n, steps, cur), sig="c05:haissinski:%s:%s" % ("sign" if wrong < res else "strength", "bunch0" if b == 0 else "bunch>=1"), metrics=met)
        # the same relation with the wake recomputed from the stored profiles by the convolution formula (absolute scale
        # from the machine parameters): this ties sign and strength of the collective force to the impedance
        stored = h["/WakePotential/data"][-1, b].copy()
        h.ds["/WakePotential/data"][-1, b] = wref[b]
        res2, wrong2, D2 = analyse(h, steps, -1, b)
        h.ds["/WakePotential/data"][-1, b] = stored
        met["residual_refwake_over_tol"] = max(met.get("residual_refwake_over_tol", 0), res2 / tol)
        if res2 > tol * 1.2:
            return Outcome(False, nt, cls, "stationary bunch %d does not satisfy the Haissinski equation with the wake recomputed from the profiles and the stored impedance: std over the core %.4f > %.4f (opposite sign: %.4f; with the stored wake: %.4f); %s, D=%.3f (recomputed %.3f), n=%d" %
                           (b, res2, 1.2 * tol, wrong2, res, fam, D, D2, n), sig="c05:haissinski_refwake:%s" % ("sign" if wrong2 < res2 else "strength"), metrics=met)
    cls.append("D>0.3" if met["D"] > 0.3 else "D<=0.3")
    D = met["D"]
    # "the energy distribution stays the unit Gaussian": centred on zero energy, width one - wherever the grid is centred
    me = np.abs(h["/EnergyAverage/data"][-1].astype(np.float64)).max()
    met["emean"] = me / (0.01 + 0.03 * D)
    if me > 0.01 + 0.03 * D:
        return Outcome(False, nontriv, cls, "energy distribution of the stationary bunch is centred at %.4f instead of 0 (D=%.3f %s, grid shifts %s/%s)" %
                       (me, D, fam, case.get("shiftx", 0.0), case.get("shifty", 0.0)), sig="c05:emean", metrics=met)
    sp = float(h["/EnergySpread/data"][-1, 0])
    tau = (0.5 if case["deriv"] == 3 else 0.1) * delta ** 2 + 0.003 + 0.005 + 0.03 * D
    met["espread_dev"] = abs(sp - 1) / tau
    if abs(sp - 1) > tau:
        return Outcome(False, nontriv, cls, "energy distribution of the stationary bunch has width %.5f, expected 1 +- %.4f (D=%.3f %s)" % (sp, tau, D, fam), sig="c05:espread", metrics=met)
    return Outcome(True, nontriv, cls, metrics=met)


@st.composite
def cases(draw, fast=True):
    n = draw(st.sampled_from([64, 64, 96] if fast else [64, 96, 128]))
    delta = 12.0 / (n - 1)
    # per-step decrement e1 = 2/(P*steps) <= 0.48 delta^2
    need = 2.0 / (0.48 * delta ** 2)       # e1/delta^2 up to 0.48: the explicit scheme is stable below 0.5
    P = draw(st.sampled_from([2.0, 3.0, 4.0, 6.0, 8.0]))
    smin = max(100, int(np.ceil(need / P)))
    steps = draw(st.integers(min(smin, 400), 400))
    if P * steps < need:
        P = float(np.ceil(need / steps))
    if draw(st.integers(0, 5)) == 0:
        # strong damping, close to the stability limit of the explicit scheme: diffusion number e1/delta^2 in 0.40..0.48
        # (round-6 seed C05f caps the diffusion weight only there).  Constructed, not waited for: P*steps = 2/(r delta^2)
        n = 96 if fast else draw(st.sampled_from([96, 128]))
        delta = 12.0 / (n - 1)
        r = draw(st.floats(0.40, 0.48))
        P = draw(st.sampled_from([2.0, 3.0] if n == 96 else [2.0, 3.0, 4.0]))
        steps = int(np.ceil(2.0 / (r * delta ** 2) / P))
    fam = draw(st.sampled_from(["collimator", "wall", "freespace", "plates", "file"]))
    it = draw(st.sampled_from([3, 4, 4]))
    # "weak, stable impedance": quadratic interpolation and free-space CSR stay below D = 0.5 (beyond that the
    # discretised system is visibly dissipative / close to the instability threshold: calibration runs)
    dmax = 0.5 if (it == 3 or fam == "freespace") else 1.0
    two = fam != "file" and draw(st.integers(0, 2)) == 0
    # a train is only informative if the two bunches' wakes differ by much more than the tolerance
    dlo = 0.3 if two else 0.05
    # "after relaxation from any start": also very short bunches whose tails are exactly zero on the grid
    zooms = [0.7, 1.0, 1.2, 1.5, 0.15, 0.25]
    if not two and draw(st.integers(0, 3)) == 0:
        # many steps per synchrotron period: the wake kick per step is a few thousandths of a cell or less, and the start
        # is far from equilibrium, so the kick map has to follow small changes of the wake over a long history (round-4
        # seed C05d: source-map entries refreshed only when the kick changed by more than 1e-3 cells)
        n, P = 96, 2.0          # (on the 64 grid the discretisation allowance of the oracle is larger than what a stale kick does)
        steps = draw(st.sampled_from([1000, 2000, 4000]))
        zooms = [0.5, 2.0]
        dlo = 0.2
    return dict(n=n, steps=steps, P=P, family=fam,
                D=float(10 ** draw(st.floats(np.log10(dlo), np.log10(max(dmax, dlo * 1.2))))), zoom=draw(st.sampled_from(zooms)),
                it=it, deriv=draw(st.sampled_from([3, 4])), clamped=draw(st.integers(0, 2)) == 0,
                zr=float(10 ** draw(st.floats(1, 3))), zl=float(draw(st.floats(-1, 1))),
                ratio=(draw(st.sampled_from([0.2, 0.3, 0.5])) if two else 0.0),
                first_strong=draw(st.booleans()), sps=draw(st.floats(1.1, 1.8)),
                shiftx=(gen.f32(draw(st.floats(-6, 6))) if draw(st.integers(0, 2)) == 0 else 0.0),
                shifty=(gen.f32(draw(st.floats(-6, 6))) if draw(st.integers(0, 2)) == 0 else 0.0))


def subs(tier):
    return [Sub("haissinski", cases(fast=(tier == "quick")), run_case, quick=144, thorough=1600, needs=("rel", "h5x"), shrink_budget=10,
                max_wall={"quick": 500, "thorough": 3000})]
