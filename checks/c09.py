"""C09 — normalisation restores each bunch's charge share; moments are the true moments (DESIGN.md §3 C09)."""
import numpy as np
from hypothesis import strategies as st

from vlib import gen
from vlib.driver import Outcome, Sub
from vlib import shim as shimmod

LEVEL = "exploration"
RULE = ("generated: n in 8..128, extents [-L+s, L+s] per axis, nb in 1..5 with filling patterns containing zeros; norm: "
        "arbitrary non-negative data (one case in three: total charge already 1, 1 +- few ulp, 0.5 or 2 but distributed over the bunches differently from the filling pattern), non-trivial = unequal shares or nb==1 with total != 1; moments: mixtures of 1-3 "
        "correlated Gaussians (sigma >= 2 cells, 5 sigma inside the grid), non-trivial = |mean| >= 0.5 on some axis and, for "
        "nb >= 2, bunches differ; isolation: other bunches' data replaced; copy: copy construction after refresh")
ASSUMPTIONS = ["float64 reference sums are exact to 1e-12"]
TOL_SHARE = 4e-6
TOL_PROJ = 4e-6
TOL_MOM = 6e-5          # relative to axis extent (moments of the stored projections; float32 accumulation over n terms, observed <= 2.1e-5)
TOL_GAUSS = 2e-3        # relative to sigma (analytic mean / width of a Gaussian mixture)
TOLERANCES = {"share_rel": TOL_SHARE, "projection_rel_to_sum_abs_terms": TOL_PROJ, "moment_rel_to_extent": TOL_MOM,
              "gaussian_rel_to_sigma": TOL_GAUSS}


def S():
    return shimmod.get()


@st.composite
def geometry(draw, nmin=8, nmax=128, maxnb=5):
    n = gen.grid_size(draw, nmin, nmax, one_in=20)
    nb = draw(st.integers(1, maxnb)) if n < 200 else draw(st.integers(1, 2))
    L = draw(st.sampled_from([4.0, 6.0, 8.0, 12.0]))
    sx = gen.f32(draw(st.floats(-2, 2))) if draw(st.booleans()) else 0.0
    sy = gen.f32(draw(st.floats(-2, 2))) if draw(st.booleans()) else 0.0
    shares = [draw(st.integers(0, 8)) for _ in range(nb)]
    if sum(shares) == 0:
        shares[draw(st.integers(0, nb - 1))] = 3
    return dict(n=n, nb=nb, L=L, sx=sx, sy=sy, shares=shares, dseed=draw(gen.seeds()))


def filling_of(case):
    sh = np.array(case["shares"], np.float64)
    return (sh / sh.sum()).astype(np.float32)


def make_ps(s, case, data):
    """a phase space holding `data`.  In half of the cases (decided by a hash of the data, so a case stays a pure function of
    its JSON) the object is long-lived: it is built with OTHER content first - a few impulses, zero elsewhere - brought up
    to date, and then gets `data` written into its grid in place, as HDF5File::readPhaseSpace and the maps do.  What the
    object reports must depend on the data it holds now, not on what its caches saw before (round-8 seed C09h)."""
    import zlib
    L, sx, sy = case["L"], case["sx"], case["sy"]
    data = np.ascontiguousarray(data, np.float32)
    hsh = zlib.crc32(data.tobytes())
    if hsh % 2 == 0:
        return s.ps_new(-L + sx, L + sx, -L + sy, L + sy, filling=filling_of(case), data=data)
    r = np.random.Generator(np.random.PCG64(hsh))
    prev = np.zeros_like(data)
    nb, n = data.shape[0], data.shape[1]
    for b in range(nb):
        for _ in range(3):
            prev[b, int(r.integers(0, n)), int(r.integers(0, n))] = np.float32(r.random() + 0.1)
    h = s.ps_new(-L + sx, L + sx, -L + sy, L + sy, filling=filling_of(case), data=prev)
    for op in ("updateX", "updateY", "integrate"):
        s.ps_op(h, op)
    s.ps_data(h)[:] = data
    return h


# ------------------------------------------------------------------ normalisation
def run_norm(case):
    s = S()
    n, nb = case["n"], case["nb"]
    s.reset(n, nb)
    r = gen.rng(case["dseed"])
    scale = 10 ** r.uniform(-3, 3, size=(nb, 1, 1))
    data = (r.random((nb, n, n)) * scale).astype(np.float32)
    if case.get("sparse"):
        data *= (r.random((nb, n, n)) < 0.1)
        data[:, n // 2, n // 2] = np.float32(1.0) * scale[:, 0, 0].astype(np.float32)
    fill = filling_of(case).astype(np.float64)
    if case.get("unit"):
        # the grid as a whole already carries (to rounding) unit charge, but distributed over the bunches by
        # 'dshares', not by the filling pattern: normalisation still has to restore every bunch's own share
        w = gen.simpson_weights(n, 2 * case["L"] / (n - 1))
        ds = np.array(case["dshares"], np.float64)
        ds = ds / ds.sum() * case.get("total", 1.0)
        for b in range(nb):
            popb = float(w @ data[b].astype(np.float64) @ w)
            data[b] = (data[b].astype(np.float64) * (ds[b] / popb)).astype(np.float32)
    h = make_ps(s, case, data)
    for op in ("updateX", "integrateAndNormalize", "updateX", "integrate"):
        s.ps_op(h, op)
    pop = s.ps_get(h, "filling").astype(np.float64)
    integ = float(s.ps_get(h, "integral")[0])
    d1 = s.ps_data(h).copy()
    cls = ["nb%d" % min(nb, 3), "haszero" if (fill == 0).any() else "nozero", "unit_total" if case.get("unit") else "raw_total"]
    nontriv = bool(len(set(case["shares"])) > 1 or nb == 1)
    met = {}
    for b in range(nb):
        if fill[b] == 0:
            if pop[b] != 0 or (d1[b] != 0).any():
                return Outcome(False, nontriv, cls, "empty bucket %d not emptied by normalisation (population %r)" % (b, pop[b]), sig="c09:norm:empty")
        else:
            rel = abs(pop[b] / fill[b] - 1)
            met["share_rel"] = max(met.get("share_rel", 0), rel)
            if not rel <= TOL_SHARE:
                return Outcome(False, nontriv, cls, "bunch %d integrates to %.9g after normalisation, share is %.9g (n=%d nb=%d shares=%s)" %
                               (b, pop[b], fill[b], n, nb, case["shares"]), sig="c09:norm:share", metrics=met)
    if not abs(integ - 1) <= TOL_SHARE:
        return Outcome(False, nontriv, cls, "total charge after normalisation is %.9g" % integ, sig="c09:norm:total", metrics=met)
    # idempotence
    for op in ("integrateAndNormalize",):
        s.ps_op(h, op)
    d2 = s.ps_data(h).copy()
    # a second normalisation may only repeat the rounding of the first: relative change within the share tolerance
    with np.errstate(divide="ignore", invalid="ignore"):
        relch = np.abs(d2.astype(np.float64) - d1) / np.maximum(np.abs(d1.astype(np.float64)), 1e-30)
    relch = np.nan_to_num(relch, nan=0.0, posinf=0.0)
    met["idem_rel"] = float(relch.max())
    if relch.max() > TOL_SHARE:
        return Outcome(False, nontriv, cls, "second normalisation changes the data by %.3g relative" % relch.max(), sig="c09:norm:idem", metrics=met)
    return Outcome(True, nontriv, cls, metrics=met)


@st.composite
def norm_cases(draw):
    c = draw(geometry())
    c["sparse"] = draw(st.booleans())
    c["unit"] = draw(st.integers(0, 2)) == 0
    if c["unit"]:
        c["dshares"] = [draw(st.integers(1, 8)) for _ in range(c["nb"])]
        c["total"] = draw(st.sampled_from([1.0, 1.0, 1.0 + 3e-7, 1.0 - 3e-7, 1.0 + 1e-5, 0.5, 2.0]))
    return c


# ------------------------------------------------------------------ gaussian mixtures / moments / projections
def mixture(case, b, n):
    """float64 density of bunch b on the grid + analytic (mean_q, var_q, mean_p, var_p)"""
    L, sx, sy = case["L"], case["sx"], case["sy"]
    q = np.linspace(-L + sx, L + sx, n)
    p = np.linspace(-L + sy, L + sy, n)
    Q, P = np.meshgrid(q, p, indexing="ij")
    dens = np.zeros((n, n))
    A = 0.0
    mq = mp = sq2 = sp2 = 0.0
    for g in case["gauss"][b]:
        a, muq, mup, sq, sp, rho = g["a"], g["muq"] + sx, g["mup"] + sy, g["sq"], g["sp"], g["rho"]
        zq, zp = (Q - muq) / sq, (P - mup) / sp
        e = np.exp(-(zq * zq - 2 * rho * zq * zp + zp * zp) / (2 * (1 - rho * rho)))
        dens += a * e / (2 * np.pi * sq * sp * np.sqrt(1 - rho * rho))
        A += a
        mq += a * muq
        mp += a * mup
        sq2 += a * (sq * sq + muq * muq)
        sp2 += a * (sp * sp + mup * mup)
    mq, mp = mq / A, mp / A
    return dens, (mq, sq2 / A - mq * mq, mp, sp2 / A - mp * mp)


def refresh(s, h):
    # the two projections are independent functions of the grid data: either may be refreshed first (the order alternates
    # with a counter that restarts with every case, and depends on the grid size)
    s._refresh = getattr(s, "_refresh", 0) + 1
    first = ("updateX", "updateY") if (s._refresh + s.n) % 2 == 0 else ("updateY", "updateX")
    for op in first + ("integrate", "variance0", "variance1"):
        s.ps_op(h, op)


def reported(s, h):
    return {k: s.ps_get(h, k).copy() for k in ("filling", "mean0", "var0", "mean1", "var1", "rms0", "rms1", "proj0", "proj1")}


def run_moments(case):
    s = S()
    n, nb = case["n"], case["nb"]
    s.reset(n, nb)
    L = case["L"]
    delta = 2 * L / (n - 1)
    fill = filling_of(case).astype(np.float64)
    data = np.zeros((nb, n, n), np.float32)
    ana = []
    for b in range(nb):
        d, m = mixture(case, b, n)
        data[b] = d.astype(np.float32)
        ana.append(m)
    h = make_ps(s, case, data)
    refresh(s, h)
    rep = reported(s, h)
    q = s.ps_get(h, "axis0").astype(np.float64)
    p = s.ps_get(h, "axis1").astype(np.float64)
    w = gen.simpson_weights(n, delta)
    d64 = data.astype(np.float64)
    cls = ["nb%d" % min(nb, 3), "ng%d" % len(case["gauss"][0])]
    offc = any(abs(g["muq"]) >= 0.5 or abs(g["mup"]) >= 0.5 for b in range(nb) for g in case["gauss"][b])
    nontriv = bool(offc and (nb == 1 or case["gauss"][0] != case["gauss"][1]))
    met = {}
    for b in range(nb):
        # projections: Simpson along the other axis
        pr0 = (d64[b] * w[None, :]).sum(axis=1)
        pr1 = (d64[b] * w[:, None]).sum(axis=0)
        for ax, ref, got in ((0, pr0, rep["proj0"][b]), (1, pr1, rep["proj1"][b])):
            scale = (np.abs(d64[b]) * (w[None, :] if ax == 0 else w[:, None])).sum(axis=1 - ax)
            # 1e-36: rows made of denormals carry only a few bits each (not a rounding defect of the sum)
            err = np.abs(got - ref) / (scale + 1e-36)
            e = float(err.max())
            met["proj_rel"] = max(met.get("proj_rel", 0), e)
            if e > TOL_PROJ:
                return Outcome(False, nontriv, cls, "projection onto axis %d of bunch %d differs from Simpson sum of the grid: rel %.3g (n=%d nb=%d)" % (ax, b, e, n, nb),
                               sig="c09:proj:axis%d" % ax, metrics=met)
        if fill[b] == 0:
            continue
        # moments of the bunch's own projections, normalised by its own charge
        for ax, axis, pr in ((0, q, rep["proj0"][b].astype(np.float64)), (1, p, rep["proj1"][b].astype(np.float64))):
            tot = pr.sum()
            m1 = (pr * axis).sum() / tot
            m2 = (pr * (axis - m1) ** 2).sum() / tot
            g1 = float(rep["mean%d" % ax][b])
            g2 = float(rep["var%d" % ax][b])
            gr = float(rep["rms%d" % ax][b])
            ext = 2 * L
            e1, e2 = abs(g1 - m1) / ext, abs(g2 - m2) / ext ** 2 * 4
            er = abs(gr - np.sqrt(m2)) / ext
            met["mom_rel"] = max(met.get("mom_rel", 0), e1, e2, er)
            if max(e1, e2, er) > TOL_MOM:
                return Outcome(False, nontriv, cls, "axis %d bunch %d: reported mean/var/rms %.7g/%.7g/%.7g, moments of its projection %.7g/%.7g/%.7g (n=%d nb=%d)" %
                               (ax, b, g1, g2, gr, m1, m2, np.sqrt(m2), n, nb), sig="c09:moment:axis%d" % ax, metrics=met)
            am, av = ana[b][2 * ax], ana[b][2 * ax + 1]
            sig = np.sqrt(av)
            ea, es = abs(g1 - am) / sig, abs(gr - sig) / sig
            met["gauss_rel"] = max(met.get("gauss_rel", 0), ea, es)
            if max(ea, es) > TOL_GAUSS:
                return Outcome(False, nontriv, cls, "axis %d bunch %d: reported mean %.7g width %.7g, Gaussian mixture has mean %.7g width %.7g (n=%d)" %
                               (ax, b, g1, gr, am, sig, n), sig="c09:gauss:axis%d" % ax, metrics=met)
    return Outcome(True, nontriv, cls, metrics=met)


def gauss_strategy(draw, L, n):
    delta = 2 * L / (n - 1)
    smin = 2 * delta
    smax = L / 5.0
    sq = gen.f32(draw(st.floats(smin, max(smin, smax))))
    sp = gen.f32(draw(st.floats(smin, max(smin, smax))))
    muq = gen.f32(draw(st.floats(-1, 1)) * max(0.0, L - 5 * sq))
    mup = gen.f32(draw(st.floats(-1, 1)) * max(0.0, L - 5 * sp))
    return dict(a=gen.f32(draw(st.floats(0.1, 10))), muq=muq, mup=mup, sq=sq, sp=sp,
                rho=gen.f32(draw(st.floats(-0.8, 0.8))) if draw(st.booleans()) else 0.0)


@st.composite
def moment_cases(draw):
    c = draw(geometry(nmin=24, nmax=128, maxnb=4))
    # shifts are applied to the gaussians too (they are given relative to the grid centre)
    ng = draw(st.integers(1, 3))
    same = draw(st.integers(0, 5)) == 0
    gs = []
    for b in range(c["nb"]):
        if same and b > 0:
            gs.append(gs[0])
        else:
            gs.append([gauss_strategy(draw, c["L"], c["n"]) for _ in range(ng)])
    c["gauss"] = gs
    return c


# ------------------------------------------------------------------ isolation
def run_isolation(case):
    s = S()
    n, nb = case["n"], case["nb"]
    r = gen.rng(case["dseed"])
    data = (r.random((nb, n, n)) ** 3).astype(np.float32)
    b = case["bunch"] % nb
    s.reset(n, nb)
    h = make_ps(s, case, data)
    refresh(s, h)
    rep1 = reported(s, h)
    data2 = (r.random((nb, n, n)) * 7).astype(np.float32)
    data2[b] = data[b]
    s.ps_data(h)[:] = data2
    refresh(s, h)
    rep2 = reported(s, h)
    nontriv = nb >= 2
    for k in rep1:
        if (gen.bits(rep1[k][b]) != gen.bits(rep2[k][b])).any():
            return Outcome(False, nontriv, ["iso"], "%s of bunch %d changed when only the other bunches' data changed (n=%d nb=%d)" % (k, b, n, nb),
                           sig="c09:isolation:%s" % k)
    return Outcome(True, nontriv, ["iso", "nb%d" % min(nb, 3)])


@st.composite
def iso_cases(draw):
    c = draw(geometry(nmin=8, nmax=64))
    c["shares"] = [max(1, x) for x in c["shares"]]
    c["bunch"] = draw(st.integers(0, 4))
    return c


# ------------------------------------------------------------------ copy
def run_copy(case):
    s = S()
    n, nb = case["n"], case["nb"]
    r = gen.rng(case["dseed"])
    data = (r.random((nb, n, n)) ** 2).astype(np.float32)
    fill = filling_of(case)
    data[fill == 0] = 0
    s.reset(n, nb)
    h = make_ps(s, case, data)
    if case["normalize"]:
        s.ps_op(h, "updateX")
        s.ps_op(h, "integrateAndNormalize")
    refresh(s, h)
    c = s.ps_copy(h)
    nontriv = True
    cls = ["copy", "norm%d" % int(case["normalize"])]
    if (gen.bits(s.ps_data(h)) != gen.bits(s.ps_data(c))).any():
        return Outcome(False, nontriv, cls, "copy does not carry the same data", sig="c09:copy:data")
    for k in ("proj0", "proj1", "filling"):
        a, b = s.ps_get(h, k), s.ps_get(c, k)
        if (gen.bits(a) != gen.bits(b)).any():
            return Outcome(False, nontriv, cls, "copy reports different %s than its up-to-date original (n=%d nb=%d shares=%s)" % (k, n, nb, case["shares"]), sig="c09:copy:%s" % k)
    if gen.bits(s.ps_get(h, "integral"))[0] != gen.bits(s.ps_get(c, "integral"))[0]:
        return Outcome(False, nontriv, cls, "copy reports a different integral", sig="c09:copy:integral")
    if (gen.bits(s.ps_get(h, "setfilling")) != gen.bits(s.ps_get(c, "setfilling"))).any():
        return Outcome(False, nontriv, cls, "copy has a different set filling pattern", sig="c09:copy:setfilling")
    s.ps_op(c, "variance0")
    s.ps_op(c, "variance1")
    for k in ("mean0", "var0", "mean1", "var1", "rms0", "rms1"):
        a, b = s.ps_get(h, k), s.ps_get(c, k)
        if (gen.bits(a) != gen.bits(b)).any():
            return Outcome(False, nontriv, cls, "copy reports different %s: %s vs %s" % (k, a.tolist(), b.tolist()), sig="c09:copy:%s" % k)
    # normalising the copy restores the same shares as normalising the original
    for x in (h, c):
        s.ps_op(x, "updateX")
        s.ps_op(x, "integrateAndNormalize")
    if (gen.bits(s.ps_data(h)) != gen.bits(s.ps_data(c))).any():
        return Outcome(False, nontriv, cls, "normalising the copy gives different data than normalising the original", sig="c09:copy:normalize")
    return Outcome(True, nontriv, cls)


@st.composite
def copy_cases(draw):
    c = draw(geometry(nmin=8, nmax=64))
    c["normalize"] = draw(st.booleans())
    return c


def subs(tier):
    return [Sub("norm", norm_cases(), run_norm, quick=9600, thorough=300000),
            Sub("moments", moment_cases(), run_moments, quick=6400, thorough=200000),
            Sub("isolation", iso_cases(), run_isolation, quick=4800, thorough=150000),
            Sub("copy", copy_cases(), run_copy, quick=4800, thorough=150000)]
