"""C17 — no configuration or input file makes the program touch memory it does not own (DESIGN.md §3 C17).

Detector: the real program built with clang AddressSanitizer + UndefinedBehaviorSanitizer (incl. float-cast-overflow), asserts
on; a case fails iff a sanitizer report appears or the process dies from a signal.  Uninitialised reads: valgrind memcheck on
a generated subset (no MSan-instrumented libstdc++/boost/HDF5/FFTW exists in the image).  Byte-level: libFuzzer target."""
import os
import re
import subprocess
import numpy as np
from hypothesis import strategies as st

from vlib import gen, cli, cfggen
from vlib.driver import Outcome, Sub

LEVEL = "exploration"
RULE = ("structured generator -> argv + input files for the sanitizer build: grid 4..96 (odd too), 1-8 buckets with gaps and the "
        "bucket spacing solved for (spacing just above one grid width, with and without rounding to powers of two), real-valued "
        "padding, interpolation 1-4, stencil 3/4, all Fokker-Planck and tracking variants, clamped interpolation, both RF models "
        "with noise / modulation, shifts up to +-n/2, kick amplitudes beyond the grid (large currents, few steps per period), "
        "impedance files with row counts {0,1,N/2-1,N/2,N-1,N,N+1,3N} and malformed tokens, tracking files with particles on "
        "every edge/corner/outside/NaN/one column/empty, start distributions (.txt token fuzz; .h5 of another grid size, rank "
        "2-5, zero records, start step out of range).  non-trivial = the case belongs to at least one stress class; distinct = "
        "case hash.  valgrind: same generator restricted to tiny runs.  fuzz: libFuzzer on the three text readers + factory")
ASSUMPTIONS = ["ASan/UBSan (clang 14) and valgrind 3.19 are the detectors; leaks are not in the property and not checked",
               "an uncaught C++ exception that terminates the program after printing text counts as 'stops with a message'"]
TOLERANCES = {}
SAN_RE = re.compile(r"(ERROR: AddressSanitizer: ([a-zA-Z0-9_-]+)|runtime error: ([^\n]+)|UndefinedBehaviorSanitizer|AddressSanitizer:DEADLYSIGNAL)")
FRAME_RE = re.compile(r"#\d+ 0x[0-9a-f]+ in (.+?) (\S*?/(?:src|inc)/\S+?):(\d+)")


def signature(err):
    m = SAN_RE.search(err)
    if not m:
        return None
    kind = m.group(2) or ("ubsan:" + re.sub(r"-?\d+(\.\d+)?(e[+-]?\d+)?|nan|inf", "N", (m.group(3) or "ub"))[:70]) or "san"
    frame = None
    for fm in FRAME_RE.finditer(err):
        path = fm.group(2)
        if "/boost/" in path or "/usr/" in path:
            continue
        fn = re.sub(r"\(.*", "", fm.group(1))
        frame = "%s@%s" % (fn, os.path.basename(path))
        break
    if frame is None:
        um = re.search(r"(\S+?/(?:src|inc)/\S+?):(\d+):\d+: runtime error", err)
        frame = os.path.basename(um.group(1)) if um else "?"
    return "c17:%s:%s" % (kind, frame)


def write_files(case, wd):
    for name, content in case.get("files", {}).items():
        p = os.path.join(wd, name)
        if isinstance(content, dict) and content.get("h5"):
            arr = np.asarray(gen.rng(content["seed"]).random(content["shape"]), np.float32) if content["shape"] and all(content["shape"]) else np.zeros(content["shape"], np.float32)
            cli.mkds(p, content.get("ds", "/PhaseSpace/data"), arr)
            if content.get("trunc") is not None:
                # a results file cut short (disk full, copy interrupted): the first trunc*size bytes only
                sz = os.path.getsize(p)
                with open(p, "r+b") as f:
                    f.truncate(max(0, int(sz * content["trunc"])))
        elif isinstance(content, dict) and content.get("imp"):
            rows, N = content["rows"], content["rows"]
            r = gen.rng(content["seed"])
            mag = content.get("mag", 100.0)
            with open(p, "w") as f:
                for i in range(rows):
                    f.write("%d %.6g %.6g\n" % (i, r.random() * mag, r.standard_normal() * mag))
                f.write(content.get("tail", ""))
        else:
            with open(p, "wb") as f:
                f.write(content.encode("latin-1") if isinstance(content, str) else bytes(content))


def run_san(case, flavour="san", timeout=240):
    wd = cli.scratch("c17")
    write_files(case, wd)
    args = ["-c", "/dev/null", "-o", "o.h5"] + cli.optargs(case["opts"])
    r = cli.run(args, wd, flavour=flavour, timeout=timeout)
    return r, wd


def run_case(case):
    r, wd = run_san(case)
    cls = list(case["classes"])
    nontriv = bool(cls and cls != ["plain"])
    if r.timed_out:
        return Outcome(True, False, cls + ["timeout"], discard=True)
    sig = signature(r.err)
    if sig or r.signal:
        lines = [l for l in r.err.splitlines() if SAN_RE.search(l) or FRAME_RE.search(l)][:6]
        if not sig:
            sig = "c17:signal%d" % r.signal
        return Outcome(False, nontriv, cls, "memory error / undefined behaviour (%s) for options %s files %s:\n  %s" %
                       (sig, case["opts"], {k: (v if isinstance(v, dict) else str(v)[:60]) for k, v in case.get("files", {}).items()}, "\n  ".join(lines)), sig=sig)
    out = (r.out + r.err).strip()
    if not out:
        return Outcome(False, nontriv, cls, "program stopped without any message (rc=%s) for %s" % (r.rc, case["opts"]), sig="c17:silent")
    if "Finished." in r.out:
        cls.append("completed")
    else:
        cls.append("stopped")
    return Outcome(True, nontriv, cls)


# ------------------------------------------------------------------ generator
BAD_TOKENS = ["abc", "nan", "inf", "-inf", "1e999", "-1e999", "0x10", "1,5", "", "\x00\x01\x02", "1e-999", "99999999999999999999", "-1", "--", "\r\n", "#"]


@st.composite
def token_text(draw, ncols, maxlines=30):
    lines = []
    for _ in range(draw(st.integers(0, maxlines))):
        cols = []
        for c in range(draw(st.sampled_from([ncols, ncols, ncols, ncols - 1, ncols + 1, 0]))):
            if draw(st.integers(0, 5)) == 0:
                cols.append(draw(st.sampled_from(BAD_TOKENS)))
            else:
                cols.append(repr(draw(st.floats(-10, 10))) if c or ncols == 2 else str(draw(st.integers(0, 50))))
        lines.append(" ".join(cols))
    sep = draw(st.sampled_from(["\n", "\n", "\r\n"]))
    return sep.join(lines) + (sep if draw(st.booleans()) else "")


@st.composite
def cases(draw, tiny=False):
    classes = []
    n = draw(st.integers(4, 24 if tiny else 96))
    o = dict(GridSize=n)
    steps = draw(st.integers(3, 60))
    o["StepsPerTs"] = steps
    laststep = draw(st.integers(0, 6 if tiny else 20))
    o["rotations"] = float(np.float32(max(0.0, (laststep - 0.5)) / steps))
    o["outstep"] = draw(st.sampled_from([0, 1, 2, 5]))
    o["SavePhaseSpace"] = draw(st.sampled_from([0, 1, 2]))
    o["InterpolationPoints"] = draw(st.sampled_from([1, 2, 3, 4]))
    o["derivation"] = draw(st.sampled_from([3, 4]))
    o["FPType"] = draw(st.sampled_from([0, 1, 2, 3]))
    o["FPTrack"] = draw(st.sampled_from([0, 1, 2, 3]))
    o["InterpolateClamped"] = draw(st.booleans())
    o["LinearRF"] = draw(st.booleans())
    o["RenormalizeCharge"] = draw(st.sampled_from([-1, 0, 1, 3]))
    o["padding"] = float(draw(st.sampled_from([2.0, 2.5, 3.3, 4.0, 8.0, 12.0])) if not tiny else 2.0)
    o["RoundPadding"] = draw(st.booleans())
    if draw(st.booleans()):
        o["DampingTime"] = float(10 ** draw(st.floats(-5, -2)))
    files = {}
    stress = draw(st.lists(st.sampled_from(["spacing", "bigkick", "impfile", "track", "startdist", "shift", "rfdyn", "plain"]),
                           min_size=1, max_size=3, unique=True))
    wake = draw(st.sampled_from(["none", "collimator", "wall", "csr", "plates"]))
    if wake == "none":
        o["VacuumGap"] = 0.0
    elif wake == "collimator":
        o.update(UseCSR=False, VacuumGap=0.03, CollimatorRadius=0.005)
    elif wake == "wall":
        o.update(UseCSR=False, VacuumGap=0.03, WallConductivity=1e6)
    elif wake == "csr":
        o["VacuumGap"] = -1.0
    else:
        o["VacuumGap"] = 0.03
    if "spacing" in stress and "startdist" not in stress:
        nbk = draw(st.integers(2, 8))
        pat = [gen.f32(draw(st.floats(1e-4, 3e-3))) if draw(st.integers(0, 3)) else 0.0 for _ in range(nbk)]
        if not any(pat):
            pat[0] = 1e-3
        o["BunchCurrent"] = pat
        sps = draw(st.one_of(st.floats(1.0, 1.2), st.floats(1.0, 1.0 + 1.5 / n), st.floats(1.2, 4.0)))
        o["alpha0"] = gen.f32(cfggen.alpha0_for_spacing(sps, o))
        classes.append("spacing<1.05" if sps < 1.05 else "spacing")
        if nbk * n * sps > 3000:
            o["RoundPadding"] = True
    if "bigkick" in stress:
        which = draw(st.sampled_from(["current", "steps", "voltage", "alpha"]))
        if which == "current":
            cur = o.get("BunchCurrent", [1e-3])
            o["BunchCurrent"] = [x * float(10 ** draw(st.floats(1, 3))) for x in cur]
        elif which == "steps":
            o["StepsPerTs"] = draw(st.integers(1, 4))
        elif which == "voltage":
            o["AcceleratingVoltage"] = float(10 ** draw(st.floats(5.3, 9)))
            o["LinearRF"] = False
        else:
            o["alpha1"] = gen.f32(draw(st.floats(-50, 50)))
            o["alpha2"] = gen.f32(draw(st.floats(-5000, 5000)))
        classes.append("bigkick")
    if "shift" in stress:
        o["PhaseSpaceShiftX"] = gen.f32(draw(st.floats(-n / 2, n / 2)))
        o["PhaseSpaceShiftY"] = gen.f32(draw(st.floats(-n / 2, n / 2)))
        classes.append("shift")
    if "rfdyn" in stress:
        o["RFPhaseSpread"] = draw(st.sampled_from([0.0, 0.1, 5.0]))
        o["RFAmplitudeSpread"] = draw(st.sampled_from([0.0, 1e-4, 1e-2]))
        o["RFPhaseModAmplitude"] = draw(st.sampled_from([0.0, 1.0, 30.0]))
        o["RFPhaseModFrequency"] = draw(st.sampled_from([0.0, 1e3, 8e4]))
        classes.append("rfdyn")
    if "impfile" in stress:
        d = cfggen.derive(o)
        N = d["nmax_wake"]
        kind = draw(st.sampled_from(["rows", "rows", "huge", "tokens", "missing", "garbage"]))
        if kind == "huge":
            # legal finite numbers at the edge of single precision: the wake may overflow to inf/NaN
            files["z.dat"] = dict(imp=True, rows=N, seed=draw(gen.seeds()), tail="", mag=float(10 ** draw(st.sampled_from([30, 36, 38, -30, -40]))))
            classes.append("imphuge")
            if "track" not in stress and draw(st.booleans()):
                stress.append("track")
        if kind == "huge":
            pass
        elif kind == "rows":
            rows = draw(st.sampled_from([0, 1, max(0, N // 2 - 1), N // 2, N - 1, N, N + 1, 3 * N]))
            if rows > 20000:
                rows = N
            files["z.dat"] = dict(imp=True, rows=rows, seed=draw(gen.seeds()), tail=draw(st.sampled_from(["", "\n", "7", "x y z\n"])))
            classes.append("improws!=N" if rows != N else "improws==N")
        elif kind == "tokens":
            files["z.dat"] = draw(token_text(3))
            classes.append("imptokens")
        elif kind == "garbage":
            files["z.dat"] = bytes(draw(st.binary(min_size=0, max_size=200))).decode("latin-1")
            classes.append("impgarbage")
        else:
            classes.append("impmissing")
        o["Impedance"] = "z.dat"
    if "track" in stress:
        kind = draw(st.sampled_from(["edges", "edges", "tokens", "empty", "many"]))
        L = 6.0
        if kind == "edges":
            vals = [-L, L, 0.0, -L - 1, L + 1, 1e30, -1e30, float("nan"), L * (1 - 1e-7), -L * (1 - 1e-7)]
            pts = [(draw(st.sampled_from(vals)), draw(st.sampled_from(vals))) for _ in range(draw(st.integers(1, 8)))]
            files["t.txt"] = "".join("%r %r\n" % p for p in pts)
        elif kind == "tokens":
            files["t.txt"] = draw(token_text(2))
        elif kind == "empty":
            files["t.txt"] = ""
        else:
            files["t.txt"] = "".join("%r %r\n" % (draw(st.floats(-7, 7)), draw(st.floats(-7, 7))) for _ in range(draw(st.integers(20, 60))))
        o["tracking"] = "t.txt"
        classes.append("track_" + kind)
    if "startdist" in stress:
        kind = draw(st.sampled_from(["txt", "txt", "h5size", "h5rank", "h5zero", "h5step", "unknown", "h5trunc", "h5garbage", "h5otherds"]))
        # a start file always yields ONE bunch; the current list may still name several buckets (the program accepts
        # that: one grid, several bucket numbers - round-5 seed C17e reads past the single profile there)
        o["BunchCurrent"] = [1e-3]
        if draw(st.integers(0, 2)) == 0:
            o["BunchCurrent"] = [1e-3 if draw(st.integers(0, 3)) else 0.0 for _ in range(draw(st.integers(2, 5)))]
            if not any(o["BunchCurrent"]):
                o["BunchCurrent"][0] = 1e-3
            classes.append("startfile+buckets")
        if kind == "txt":
            files["s.txt"] = draw(token_text(2, maxlines=60))
            o["InitialDistFile"] = "s.txt"
        elif kind == "h5size":
            m = draw(st.sampled_from([n - 1, n + 1, 2 * n, max(2, n // 2), 3]))
            files["s.h5"] = dict(h5=True, shape=[1, 1, m, m], seed=draw(gen.seeds()))
            o["InitialDistFile"] = "s.h5"
        elif kind == "h5rank":
            shape = draw(st.sampled_from([[n, n], [2, n, n], [1, 1, n, n], [1, 1, 1, n, n], [n], [1, 2, n, n], [1, n, n + 1]]))
            files["s.h5"] = dict(h5=True, shape=shape, seed=draw(gen.seeds()))
            o["InitialDistFile"] = "s.h5"
        elif kind == "h5trunc":
            files["s.h5"] = dict(h5=True, shape=[2, 1, n, n], seed=draw(gen.seeds()), trunc=draw(st.sampled_from([0.0, 0.1, 0.5, 0.9, 0.99])))
            o["InitialDistFile"] = "s.h5"
        elif kind == "h5garbage":
            files["s.h5"] = bytes(draw(st.binary(min_size=0, max_size=300))).decode("latin-1")
            o["InitialDistFile"] = "s.h5"
        elif kind == "h5otherds":
            files["s.h5"] = dict(h5=True, shape=[1, 1, n, n], seed=draw(gen.seeds()), ds=draw(st.sampled_from(["/PhaseSpace/other", "/data", "/BunchProfile/data"])))
            o["InitialDistFile"] = "s.h5"
        elif kind == "h5zero":
            files["s.h5"] = dict(h5=True, shape=[0, 1, n, n], seed=0)
            o["InitialDistFile"] = "s.h5"
        elif kind == "h5step":
            files["s.h5"] = dict(h5=True, shape=[3, 1, n, n], seed=draw(gen.seeds()))
            o["InitialDistFile"] = "s.h5"
            o["InitialDistStep"] = draw(st.sampled_from([-1, -3, -4, -100, 2, 3, 100, 2**40, -2**40]))
        else:
            files["s.dat"] = "1 2\n"
            o["InitialDistFile"] = "s.dat"
        classes.append("start_" + kind)
    # documented domain: buckets do not overlap.  The spacing is solved for last, after every option that enters it
    if len(o.get("BunchCurrent", [1])) > 1:
        sps = draw(st.one_of(st.floats(1.0, 1.2), st.floats(1.0, 1.0 + 1.5 / n), st.floats(1.2, 4.0)))
        o["alpha0"] = gen.f32(cfggen.alpha0_for_spacing(sps * (1 + 2e-6), {k: v for k, v in o.items() if k != "alpha0"}))
        d = cfggen.derive(o)
        if d["spacing_ps"] < 1.0:
            o["alpha0"] = gen.f32(o["alpha0"] * (1.0 / d["spacing_ps"]) ** -2 * (1 - 1e-5))
            d = cfggen.derive(o)
        if d["spacing_ps"] < 1.0 or len(o["BunchCurrent"]) * n * d["spacing_ps"] > 6000:
            o["BunchCurrent"] = [x for x in o["BunchCurrent"] if x > 0][:1]
            classes = [c for c in classes if not c.startswith("spacing")]
        else:
            classes = [c for c in classes if not c.startswith("spacing")] + ["spacing<1.05" if d["spacing_ps"] < 1.05 else "spacing"]
    if not classes:
        classes = ["plain"]
    return dict(opts=o, files=files, classes=classes)


# ------------------------------------------------------------------ valgrind subset (uninitialised values)
def run_valgrind(case):
    wd = cli.scratch("c17v")
    write_files(case, wd)
    exe = os.environ["VERIF_REL"]
    supp = os.path.join(os.path.dirname(os.path.dirname(os.path.abspath(__file__))), "tools", "valgrind.supp")
    cmd = ["valgrind", "--error-exitcode=97", "--undef-value-errors=yes", "--track-origins=no", "--leak-check=no", "-q",
           "--suppressions=" + supp, exe, "-c", "/dev/null", "-o", "o.h5"] + cli.optargs(case["opts"])
    env = dict(os.environ)
    try:
        p = subprocess.run(cmd, cwd=wd, env=env, stdout=subprocess.PIPE, stderr=subprocess.PIPE, timeout=600, stdin=subprocess.DEVNULL)
    except subprocess.TimeoutExpired:
        return Outcome(True, False, ["timeout"], discard=True)
    err = p.stderr.decode(errors="replace")
    cls = list(case["classes"]) + ["valgrind"]
    nontriv = bool(case["classes"] != ["plain"])
    blocks = re.split(r"\n==\d+== \n", err)
    for b in blocks:
        m = re.search(r"==\d+== (Conditional jump or move depends on uninitialised|Use of uninitialised value|Invalid read|Invalid write|Syscall param .* uninitialised)", b)
        if not m:
            continue
        fr = re.search(r"(?:at|by) 0x[0-9A-F]+: (\S.*?) \((\w+\.[ch]pp):(\d+)\)", b)
        frames = re.findall(r"(?:at|by) 0x[0-9A-F]+: (\S.*?) \((\w+\.[ch]pp):(\d+)\)", b)
        ours = [f for f in frames if f[1] in OUR_FILES]
        if not ours:
            continue
        fn, fl, ln = ours[0]
        sig = "c17:valgrind:%s:%s@%s" % (m.group(1).split()[0], re.sub(r"\(.*", "", fn), fl)
        return Outcome(False, nontriv, cls, "valgrind: %s in %s (%s:%s) for options %s files %s" % (m.group(1), fn, fl, ln, case["opts"], list(case.get("files", {}))), sig=sig)
    return Outcome(True, nontriv, cls)


OUR_FILES = set()
for _root in ("src", "inc"):
    for _dp, _dn, _fn in os.walk(os.path.join(os.environ.get("VERIF_REPO", "/repo"), _root)):
        OUR_FILES.update(f for f in _fn if f.endswith((".cpp", ".hpp")))


# ------------------------------------------------------------------ libFuzzer on the text readers
SEEDS = ["0 1.0 0.0\n1 2.0 -1.0\n2 3.0 0.5\n", "0.5 0.5\n-1.0 2.0\n3 3\n", "", "0 1 2", "1 1e10 nan\n"]


def run_fuzz(case):
    wd = cli.scratch("c17f")
    exe = os.environ["VERIF_FUZZ"]
    env = dict(os.environ, VERIF_FUZZ_DIR=wd, ASAN_OPTIONS="detect_leaks=0:abort_on_error=0", UBSAN_OPTIONS="print_stacktrace=1:halt_on_error=1")
    if case.get("input_hex") is not None:
        f = os.path.join(wd, "replay.bin")
        open(f, "wb").write(bytes.fromhex(case["input_hex"]))
        p = subprocess.run([exe, f], cwd=wd, env=env, stdout=subprocess.PIPE, stderr=subprocess.PIPE, timeout=120)
        err = p.stderr.decode(errors="replace")
        bad = p.returncode != 0 and (SAN_RE.search(err) or "ORACLE-VIOLATION" in err or "deadly signal" in err)
        return Outcome(not bad, True, ["fuzz_replay"], "fuzz input reproduces: " + (signature(err) or err[-300:]), sig=signature(err) or "c17:fuzz:oracle")
    corpus = os.path.join(wd, "corpus")
    os.makedirs(corpus)
    for i, sd in enumerate(SEEDS):
        for w in range(4):
            # FuzzedDataProvider takes integrals from the END of the input: [gap selector, csr, size, reader]
            open(os.path.join(corpus, "s%d_%d" % (i, w)), "wb").write(sd.encode() + bytes([1, 1, 32, w]))
    imp = os.path.join(os.environ.get("VERIF_REPO", "/repo"), "test", "impedance.dat")
    if os.path.exists(imp):
        open(os.path.join(corpus, "imp"), "wb").write(open(imp, "rb").read()[:2000] + bytes([1, 1, 64, 0]))
        open(os.path.join(corpus, "imp1"), "wb").write(open(imp, "rb").read()[:2000] + bytes([2, 1, 64, 1]))
    cmd = [exe, "-seed=%d" % case["seed"], "-runs=%d" % case["runs"], "-max_len=2048", "-artifact_prefix=" + wd + "/", "-print_final_stats=1",
           "-timeout=20", corpus]
    try:
        p = subprocess.run(cmd, cwd=wd, env=env, stdout=subprocess.PIPE, stderr=subprocess.PIPE, timeout=case.get("wall", 600))
    except subprocess.TimeoutExpired:
        return Outcome(True, False, ["fuzz_timeout"], discard=True)
    err = p.stderr.decode(errors="replace")
    arts = [f for f in os.listdir(wd) if f.startswith("crash-") or f.startswith("leak-")]
    m = re.search(r"stat::number_of_executed_units: (\d+)", err)
    execs = int(m.group(1)) if m else 0
    cov = re.findall(r"cov: (\d+)", err)
    met = {"fuzz_execs": execs, "fuzz_cov": int(cov[-1]) if cov else 0}
    if arts:
        data = open(os.path.join(wd, arts[0]), "rb").read()
        case["input_hex"] = data.hex()
        return Outcome(False, True, ["fuzz"], "libFuzzer found a failing input (%d bytes, reader %d): %s" % (len(data), data[-1] if data else -1, signature(err) or err[-400:]),
                       sig=signature(err) or "c17:fuzz:oracle", metrics=met)
    return Outcome(True, True, ["fuzz"], metrics=met)


def fuzz_enum(tier):
    k = 16
    runs = 12000 if tier == "quick" else 500000
    return [dict(seed=1000 + i, runs=runs, wall=300 if tier == "quick" else 2400) for i in range(k)]


# ------------------------------------------------------------------ API harness under ASan/UBSan
# (prop, sub) pairs whose generators are borrowed: every API-level sub-check that needs only the shim
API_SUBS = [("C01", "sum"), ("C01", "colsum"), ("C02", "shift"), ("C02", "poly"), ("C02", "rot"), ("C03", "api"), ("C04", "api"),
            ("C06", "conv"), ("C07", "parseval"), ("C08", "maps"), ("C09", "norm"), ("C09", "moments"), ("C09", "isolation"),
            ("C09", "copy"), ("C13", "roundtrip"), ("C15", "blob"), ("C15", "ingrid"), ("C16", "shape"), ("C16", "scaling"),
            ("C16", "causal"), ("C16", "factory"), ("C18", "history"), ("C19", "zeroamp"), ("C19", "recorded"),
            ("C20", "precedence"), ("C20", "alias")]
API_N = {"quick": {"C03": 40, "C04": 8, "C16": 300, "default": 800}, "thorough": {"C03": 400, "C04": 80, "C16": 3000, "default": 12000}}
_LIBASAN = []


def libasan():
    if not _LIBASAN:
        # libstdc++ is preloaded too: ASan resolves __cxa_throw when it initialises, i.e. before ctypes loads the first C++ library
        _LIBASAN.append(" ".join(subprocess.run(["g++", "-print-file-name=" + l], stdout=subprocess.PIPE, text=True).stdout.strip()
                                 for l in ("libasan.so", "libstdc++.so.6")))
    return _LIBASAN[0]


def run_apisan(case):
    import json
    import sys
    wd = cli.scratch("c17a")
    cur = os.path.join(wd, "current.json")
    job = dict(prop=case["prop"], sub=case["sub"], seed=case["seed"], n=case["n"], curfile=cur, wall=case.get("wall", 1e9),
               wid=case.get("wid", 100))
    if case.get("inner") is not None:
        job["inner"] = case["inner"]
    jf = os.path.join(wd, "job.json")
    with open(jf, "w") as f:
        json.dump(job, f)
    verif = os.path.dirname(os.path.dirname(os.path.abspath(__file__)))
    env = dict(os.environ, VERIF_SHIM=os.environ["VERIF_SHIMSAN"], LD_PRELOAD=libasan(), PYTHONPATH=verif,
               ASAN_OPTIONS="detect_leaks=0:abort_on_error=0:exitcode=66:allocator_may_return_null=1",
               UBSAN_OPTIONS="print_stacktrace=1:halt_on_error=1:exitcode=67")
    try:
        p = subprocess.run([sys.executable, "-m", "vlib.apisan", jf], cwd=wd, env=env, stdout=subprocess.PIPE, stderr=subprocess.PIPE,
                           timeout=case.get("wall", 1e9) + 600, stdin=subprocess.DEVNULL)
    except subprocess.TimeoutExpired:
        return Outcome(True, False, ["apisan_timeout"], discard=True)
    out = p.stdout.decode(errors="replace")
    err = p.stderr.decode(errors="replace")
    m = re.search(r"APISAN-DONE (\d+)", out)
    cls = ["apisan", "apisan_%s_%s" % (case["prop"], case["sub"])]
    if p.returncode == 0 and m:
        return Outcome(True, True, cls, metrics={"apisan_cases:%s:%s:%d" % (case["prop"], case["sub"], case["seed"]): int(m.group(1))})
    sig = signature(err)
    if sig is None and p.returncode < 0:
        sig = "c17:api:signal%d" % (-p.returncode)
    if sig is None:
        # python-level failure of the child: a harness problem, never a violation
        raise RuntimeError("apisan child failed without a sanitizer report (rc=%s): %s" % (p.returncode, err[-1500:]))
    sig = sig.replace("c17:", "c17:api:", 1) if not sig.startswith("c17:api:") else sig
    inner = None
    try:
        inner = json.load(open(cur))
    except Exception:
        pass
    if case.get("inner") is None:
        case["inner"] = inner
    lines = [l for l in err.splitlines() if SAN_RE.search(l) or FRAME_RE.search(l)][:8]
    return Outcome(False, True, cls, "memory error / undefined behaviour (%s) in the API harness while running a generated case of %s/%s: %s\n  %s" %
                   (sig, case["prop"], case["sub"], json.dumps(inner)[:600], "\n  ".join(lines)), sig=sig)


def apisan_enum(tier):
    out = []
    for k, (prop, sub) in enumerate(API_SUBS):
        n = API_N[tier].get(prop, API_N[tier]["default"])
        shards = 1 if tier == "quick" else 4
        for j in range(shards):
            out.append(dict(prop=prop, sub=sub, seed=7000 + 100 * k + j, n=max(1, n // shards), wall=300 if tier == "quick" else 2400,
                            wid=100 + 4 * k + j))
    return out


def finalize(cov, agg, tier):
    fuzzrun.finalize(cov, agg, "fuzzmaps")
    g = agg.get("apisan")
    if g is not None:
        per = {}
        for k, v in g["metrics"].items():
            if k.startswith("apisan_cases:"):
                _, prop, sub, _ = k.split(":")
                per["%s/%s" % (prop, sub)] = per.get("%s/%s" % (prop, sub), 0) + int(v)
        cov["apisan_generated_cases_executed_under_asan_ubsan"] = dict(total=sum(per.values()), per_borrowed_subcheck=per)
        cov["per_subcheck"]["apisan"]["max_observed"] = {}


# ------------------------------------------------------------------ coverage-guided (libFuzzer, fuzz/fuzz_maps.cpp, oracle "memory")
from vlib import fuzzrun  # noqa: E402

MAPS_CORPUS = [bytes(range(200)), bytes([0] * 64), bytes([255, 3, 128, 64] * 64), bytes([17, 200, 90] * 100) + bytes([1, 9, 2, 3, 1, 0])]
run_fuzzmaps = fuzzrun.make_runner("c17", "VERIF_FUZZMAPS", MAPS_CORPUS, max_len=4096, env_extra={"VERIF_MAPS_ORACLE": "memory"})


def subs(tier):
    return [Sub("fuzzmaps", st.just({}), run_fuzzmaps, quick=1, thorough=1, needs=("fuzzmaps",),
                enum=lambda t: fuzzrun.campaigns(t, 12000, 250000), max_wall={"quick": 400, "thorough": 3000}),
            Sub("apisan", st.just({}), run_apisan, quick=1, thorough=1, needs=("shimsan",), enum=apisan_enum,
                max_wall={"quick": 500, "thorough": 3200}),
            Sub("fuzz", st.just({}), run_fuzz, quick=1, thorough=1, needs=("fuzz",), enum=fuzz_enum,
                max_wall={"quick": 400, "thorough": 3000}),
            Sub("sanitizer", cases(), run_case, quick=560, thorough=12000, needs=("san", "h5x"), shrink_budget=60),
            Sub("valgrind", cases(tiny=True), run_valgrind, quick=64, thorough=800, needs=("rel", "h5x"), shrink_budget=6,
                max_wall={"quick": 500, "thorough": 3000})]
