"""C19 — zero-amplitude RF modulation is the static RF; applied modulation is recorded (DESIGN.md §3 C19)."""
import os
import numpy as np
from hypothesis import strategies as st

from vlib import gen
from vlib.driver import Outcome, Sub
from vlib import shim as shimmod

LEVEL = "exploration"
RULE = ("zeroamp: DynamicRFKickMap with all amplitudes zero (also modampl != 0 with modstep = 0 and vice versa) vs RFKickMap, both "
        "RF models, generated n, interpolation order, angle / voltages, grid extents and shifts, 1-10 applications; bitwise "
        "comparison of displacement fields and output grids; non-trivial = data not symmetric and angle >= 1e-3.  recorded: "
        "generated amplitudes, noise (seeded through the guarded hook), steps (1-120, one case in five 121-6000 on a small grid), flush positions; non-trivial = >= 2 flushes, one "
        "mid-sequence, and modulation or noise active.  cli: /RFKicks/data of real runs under several output cadences")
ASSUMPTIONS = ["INOVESA_VERIF_PRNG_SEED hook makes the noise a pure function of the case"]
TOLERANCES = {"zeroamp": "bitwise", "recorded_kick_rel": 2e-5, "pure_modulation_phase_abs": "2e-6*(1+k*modstep)"}
C = 2.99792458e8


def S():
    return shimmod.get()


def world(case):
    s = S()
    n = case["n"]
    s.reset(n, 1)
    L, sx, sy = case["L"], case["sx"], case["sy"]
    r = gen.rng(case["dseed"])
    data = gen.moderate_f32(r, (1, n, n), "pos")
    kw = dict(qscale=case["qscale"], pscale=case["pscale"])
    a = s.ps_new(-L + sx, L + sx, -L + sy, L + sy, data=data, **kw)
    b = s.ps_new(-L + sx, L + sx, -L + sy, L + sy, **kw)
    c = s.ps_new(-L + sx, L + sx, -L + sy, L + sy, **kw)
    return s, a, b, c


def run_zero(case):
    s, a, b, c = world(case)
    n, it = case["n"], case["it"]
    lin = case["linear"]
    frf = case["frf"]
    if lin:
        st_ = s.map_rf_linear(a, b, case["angle"], frf, it)
        dy = s.map_dynrf_linear(a, c, case["angle"], case["revpart"], frf, 0.0, 0.0, case["modampl"], case["modstep"], case["steps"], it)
    else:
        st_ = s.map_rf_sin(a, b, case["revpart"], case["V"], frf, case["V0"], it)
        dy = s.map_dynrf_sin(a, c, case["revpart"], case["V"], frf, case["V0"], 0.0, 0.0, case["modampl"], case["modstep"], case["steps"], it)
    cls = ["linear" if lin else "sinus", "it%d" % it, "modampl" if case["modampl"] else ("modstep" if case["modstep"] else "allzero")]
    nontriv = (case["angle"] >= 1e-3) if lin else True
    f0, f1 = s.map_force(st_, n), s.map_force(dy, n)
    if (gen.bits(f0) != gen.bits(f1)).any():
        i = int(np.argwhere(gen.bits(f0) != gen.bits(f1))[0][0])
        return Outcome(False, nontriv, cls, "%s dynamic RF with zero amplitudes: displacement field after construction differs from the static map at row %d: %r vs %r (n=%d)" %
                       ("linear" if lin else "sinusoidal", i, float(f1[i]), float(f0[i]), n), sig="c19:zero:%s:construct" % ("lin" if lin else "sin"))
    for k in range(case["napply"]):
        s.map_apply(st_)
        s.map_apply(dy)
        f0, f1 = s.map_force(st_, n), s.map_force(dy, n)
        if (gen.bits(f0) != gen.bits(f1)).any() or (gen.bits(s.ps_data(b)) != gen.bits(s.ps_data(c))).any():
            return Outcome(False, nontriv, cls, "%s dynamic RF with zero amplitudes kicks differently from the static map at application %d (n=%d it=%d)" %
                           ("linear" if lin else "sinusoidal", k, n, it), sig="c19:zero:%s:apply" % ("lin" if lin else "sin"))
    return Outcome(True, nontriv, cls)


@st.composite
def common(draw):
    n = draw(st.integers(8, 64))
    return dict(n=n, it=draw(st.sampled_from([1, 2, 3, 4])), L=draw(st.sampled_from([4.0, 6.0, 8.0])),
                sx=draw(st.sampled_from([0.0, 0.0, 0.75, -1.5])), sy=draw(st.sampled_from([0.0, 0.0, -0.5])),
                dseed=draw(gen.seeds()), linear=draw(st.booleans()),
                angle=gen.f32(10 ** draw(st.floats(-3.5, np.log10(0.5)))),
                revpart=float(10 ** draw(st.floats(-4, -2))),
                qscale=float(10 ** draw(st.floats(-3.3, -2))), pscale=6.11e5, frf=gen.f32(draw(st.sampled_from([5e8, 4.5e8, 1.3e9]))),
                V=gen.f32(10 ** draw(st.floats(5, 6.5))), V0=gen.f32(10 ** draw(st.floats(3, 5))),
                steps=draw(st.integers(1, 300)))


@st.composite
def zero_cases(draw):
    c = draw(common())
    mode = draw(st.sampled_from(["allzero", "ampl_nostep", "step_noampl"]))
    c["modampl"] = gen.f32(draw(st.floats(1e-3, 0.5))) if mode == "ampl_nostep" else 0.0
    c["modstep"] = float(draw(st.floats(1e-4, 0.2))) if mode == "step_noampl" else 0.0
    c["napply"] = min(c["steps"], draw(st.integers(1, 10)))
    return c


def ref_kick(case, geom, axis_q, phase, ampl):
    n = case["n"]
    bl2phase = float(np.float32(case["qscale"] / C * np.float64(np.float32(case["frf"])) * 2 * np.pi))
    dq, dp, zq = float(geom[0]), float(geom[1]), float(geom[2])
    x = np.arange(n, dtype=np.float64)
    if case["linear"]:
        t = np.tan(np.float64(np.float32(case["angle"])))
        return (t * (zq - x) + t * (0.0 - phase) / bl2phase / dq) * ampl
    syn = 0.0
    return case["revpart"] * (-ampl * float(np.float32(case["V"])) * np.sin(axis_q.astype(np.float64) * bl2phase + phase) + float(np.float32(case["V0"]))) / dp / case["pscale"]


def run_recorded(case):
    os.environ["INOVESA_VERIF_PRNG_SEED"] = str(case["prng"])
    try:
        s, a, b, c = world(case)
        n, it = case["n"], case["it"]
        lin = case["linear"]
        if lin:
            dy = s.map_dynrf_linear(a, c, case["angle"], case["revpart"], case["frf"], case["pspread"], case["aspread"], case["modampl"], case["modstep"], case["steps"], it)
        else:
            dy = s.map_dynrf_sin(a, c, case["revpart"], case["V"], case["frf"], case["V0"], case["pspread"], case["aspread"], case["modampl"], case["modstep"], case["steps"], it)
    finally:
        os.environ.pop("INOVESA_VERIF_PRNG_SEED", None)
    geom = s.ps_get(a, "geom")
    axq = s.ps_get(a, "axis0")
    flush_at = set(case["flush_at"])
    rec = []
    forces = []
    nflush = 0
    mid = False
    cls = ["linear" if lin else "sinus", "noise" if (case["pspread"] or case["aspread"]) else "nonoise",
           "mod" if (case["modampl"] and case["modstep"]) else "nomod"]
    napply = case["napply"]
    gaps = np.diff([0] + sorted(k for k in flush_at if k < napply) + [napply])
    if napply > 65536:
        cls.append("steps>65536")
    cls.append("gap>1000" if gaps.max() > 1000 else ("gap>100" if gaps.max() > 100 else "gap<=100"))
    for k in range(napply):
        if k in flush_at:
            p, cnt = s.map_dyn_past(dy)
            rec.extend(p.tolist())
            nflush += 1
            mid = mid or (0 < k < napply)
            if case.get("double_flush") and k == min(flush_at):
                p2, cnt2 = s.map_dyn_past(dy)
                if cnt2 != 0:
                    return Outcome(False, True, cls, "second flush in a row returned %d records again" % cnt2, sig="c19:rec:double")
                nflush += 1
        s.map_apply(dy)
        forces.append(s.map_force(dy, n).astype(np.float64))
    p, cnt = s.map_dyn_past(dy)
    rec.extend(p.tolist())
    nflush += 1
    active = bool(case["pspread"] or case["aspread"] or (case["modampl"] and case["modstep"]))
    nontriv = bool(nflush >= 2 and mid and active)
    if len(rec) != napply:
        return Outcome(False, nontriv, cls, "%d steps executed, %d modulation records returned over %d flushes (flush positions %s)" %
                       (napply, len(rec), nflush, sorted(flush_at)), sig="c19:rec:count")
    syn = 0.0 if lin else float(np.arcsin(np.float32(np.float32(case["V0"]) / np.float32(case["V"]))))
    met = {}
    for k in range(napply):
        phase, ampl = rec[k]
        ref = ref_kick(case, geom, axq, phase, ampl)
        e = np.abs(forces[k] - ref).max() / (np.abs(ref).max() + 1e-3)
        met["kick_rel"] = max(met.get("kick_rel", 0), e)
        if e > 2e-5:
            return Outcome(False, nontriv, cls, "step %d: kick in force differs from the kick implied by the recorded (phase %.7g, amplitude %.7g): rel %.3g (%s, n=%d)" %
                           (k, phase, ampl, e, "linear" if lin else "sinusoidal", n), sig="c19:rec:kick:%s" % ("lin" if lin else "sin"), metrics=met)
        if not (case["pspread"] or case["aspread"]):
            want = syn + float(np.float32(case["modampl"])) * np.sin(float(np.float32(2 * np.pi * case["modstep"])) * k)
            tol = 2e-6 * (1 + abs(want)) + 1.5e-7 * k * 2 * np.pi * abs(case["modstep"]) * abs(case["modampl"]) + 1e-7 * k * abs(case["modampl"])
            if abs(phase - want) > tol or ampl != 1.0:
                return Outcome(False, nontriv, cls, "step %d: recorded phase %.8g / amplitude %.8g, configured modulation gives %.8g / 1 (modampl %g modstep %g)" %
                               (k, phase, ampl, want, case["modampl"], case["modstep"]), sig="c19:rec:modulation", metrics=met)
            met["phase_err"] = max(met.get("phase_err", 0), abs(phase - want))
    return Outcome(True, nontriv, cls, metrics=met)


@st.composite
def recorded_cases(draw):
    c = draw(common())
    # one case in five is a long run on a small grid: record buffers must not depend on the flush cadence
    long = draw(st.integers(0, 4)) == 0
    verylong = draw(st.integers(0, 39)) == 0
    if verylong:
        # beyond 2^16 steps, with flushes before and after that boundary (block-wise / index-width limits of whatever
        # holds the modulation: round-5 seed C19e builds it in blocks of 65536 and refills from the flushed record count)
        long = True
        c["n"] = 8
        c["steps"] = draw(st.integers(66000, 140000))
    elif long:
        c["n"] = draw(st.integers(8, 12))
        c["steps"] = draw(st.integers(121, 6000))
    else:
        c["steps"] = draw(st.integers(1, 120))
    noise = draw(st.booleans())
    c["pspread"] = gen.f32(draw(st.floats(1e-5, 1e-2))) if noise and draw(st.booleans()) else 0.0
    c["aspread"] = gen.f32(draw(st.floats(1e-6, 1e-3))) if noise and not c["pspread"] or (noise and draw(st.booleans())) else 0.0
    mod = draw(st.booleans()) or not noise
    c["modampl"] = gen.f32(draw(st.floats(1e-3, 0.3))) if mod else 0.0
    if mod and c["linear"] and draw(st.integers(0, 5)) == 0:
        # phase excursions beyond +-pi (modulation amplitudes above 180 degrees): the linear kick is NOT periodic in the
        # phase (round-10 seed C19j reduces the phase to its principal value before building the kick)
        c["modampl"] = gen.f32(draw(st.floats(3.3, 6.5)))
    c["modstep"] = float(draw(st.floats(1e-3, 0.2)) * draw(st.sampled_from([1.0, 1.0, -1.0]))) if mod else 0.0
    c["napply"] = draw(st.integers(max(1, c["steps"] // 2), c["steps"])) if long else draw(st.integers(1, c["steps"]))
    c["flush_at"] = sorted(set(draw(st.lists(st.integers(0, c["napply"]), min_size=0, max_size=4))))
    if verylong:
        c["modstep"] = float(draw(st.floats(1e-4, 1e-2))) if mod else 0.0
        c["flush_at"] = sorted(set(c["flush_at"] + [draw(st.integers(1, 65000))]))
    c["double_flush"] = draw(st.booleans())
    c["prng"] = draw(st.integers(1, 2**31 - 1))
    if not c["linear"]:
        # keep the sinusoidal kick inside the grid: V such that |offset| <= n/3
        dp = 2 * c["L"] / (c["n"] - 1)
        c["V"] = gen.f32(min(c["V"], c["n"] / 3 * dp * c["pscale"] / c["revpart"]))
        c["V0"] = gen.f32(min(c["V0"], 0.2 * c["V"]))
    return c


# ------------------------------------------------------------------ (c) the real program: /RFKicks/data under several cadences
def run_cli(case):
    from vlib import cli, cfggen
    wd = cli.scratch("c19")
    o = dict(case["opts"])
    d = cfggen.derive(o)
    L = d["laststep"]
    res = []
    env = {"INOVESA_VERIF_PRNG_SEED": str(case["prng"])}
    for i, outstep in enumerate(case["outsteps"]):
        r = cli.run(["-c", "/dev/null", "-o", "r%d.h5" % i] + cli.optargs(dict(o, outstep=outstep)), wd, env=env)
        if r.rc != 0 or "Finished." not in r.out:
            return Outcome(False, True, ["cli"], "run failed: %s %s" % (r.out[-300:], r.err[-300:]), sig="c19:cli:runfail")
        if "dynamic" not in r.out:
            return Outcome(True, False, ["cli", "static"], discard=True)
        res.append(cli.H5(os.path.join(wd, "r%d.h5" % i)))
    cls = ["cli", "linear" if o.get("LinearRF", True) else "sinus", "noise" if (o.get("RFPhaseSpread") or o.get("RFAmplitudeSpread")) else "nonoise"]
    nontriv = bool(len(set(case["outsteps"])) >= 2 and L >= 4)
    ref = res[0]["/RFKicks/data"]
    for i, h in enumerate(res):
        k = h["/RFKicks/data"]
        if k.shape[0] != L:
            return Outcome(False, nontriv, cls, "/RFKicks/data has %d records for %d executed steps (outstep=%d)" % (k.shape[0], L, case["outsteps"][i]), sig="c19:cli:count")
        if (gen.bits(k) != gen.bits(ref)).any():
            j = int(np.argwhere(gen.bits(k) != gen.bits(ref))[0][0])
            return Outcome(False, nontriv, cls, "recorded RF kicks differ between outstep=%d and outstep=%d from step %d on" % (case["outsteps"][0], case["outsteps"][i], j), sig="c19:cli:cadence")
    if not (o.get("RFPhaseSpread") or o.get("RFAmplitudeSpread")) and L > 0:
        A = o.get("RFPhaseModAmplitude", 0.0) / 360.0 * 2 * np.pi
        step = o.get("RFPhaseModFrequency", 0.0) * d["dt"]
        syn = 0.0 if o.get("LinearRF", True) else float(np.arcsin(d["V0"] / d["Veff"]))
        kk = np.arange(L)
        want = syn + A * np.sin(2 * np.pi * step * kk)
        e = np.abs(ref[:, 0] - want).max()
        if e > 3e-6 * (1 + abs(syn) + A) + 2e-7 * L * (1 + 2 * np.pi * abs(step)) * A or (ref[:, 1] != 1.0).any():
            j = int(np.abs(ref[:, 0] - want).argmax())
            return Outcome(False, nontriv, cls, "recorded phase at step %d is %.8g, configured modulation (%.4g deg, %.4g Hz) gives %.8g" %
                           (j, ref[j, 0], o.get("RFPhaseModAmplitude", 0), o.get("RFPhaseModFrequency", 0), want[j]), sig="c19:cli:modulation")
    return Outcome(True, nontriv, cls)


@st.composite
def cli_cases(draw):
    from vlib import cfggen
    o = draw(cfggen.base_config(nmin=16, nmax=32, min_laststep=4, max_laststep=40, multibunch=False, wake=("none", "collimator"), via_rev=3))
    mode = draw(st.sampled_from(["mod", "mod", "noise", "both"]))
    d = cfggen.derive(o)
    if mode in ("mod", "both"):
        o["RFPhaseModAmplitude"] = float(draw(st.floats(0.1, 20.0)))
        # either sign: a negative frequency is the phase-inverted drive (a negative amplitude is clamped to zero by main)
        o["RFPhaseModFrequency"] = float(d["fs"] * draw(st.floats(0.2, 3.0)) * draw(st.sampled_from([1.0, 1.0, -1.0])))
    if mode in ("noise", "both"):
        o["RFPhaseSpread"] = float(draw(st.sampled_from([0.0, 0.01, 0.5])))
        o["RFAmplitudeSpread"] = float(draw(st.sampled_from([1e-5, 1e-3])))
    L = d["laststep"]
    outs = draw(st.lists(st.sampled_from([0, 1, 2, 3, 7, max(1, L), L + 3]), min_size=2, max_size=3, unique=True))
    o["SavePhaseSpace"] = draw(st.sampled_from([0, 1]))
    if draw(st.booleans()):
        o["verbose"] = True       # what is logged must not touch what is recorded (round-9 seed C19i drains the records for a log line)
    return dict(opts=o, outsteps=outs, prng=draw(st.integers(1, 2**31 - 1)))


def subs(tier):
    return [Sub("zeroamp", zero_cases(), run_zero, quick=3200, thorough=250000),
            Sub("recorded", recorded_cases(), run_recorded, quick=2800, thorough=250000),
            Sub("cli", cli_cases(), run_cli, quick=192, thorough=3000, needs=("rel", "h5x", "shim"), shrink_budget=20)]
