"""C07 — CSR power equals the energy the wake takes from the beam and is never negative (DESIGN.md §3 C07)."""
import numpy as np
from hypothesis import strategies as st

from vlib import gen
from vlib.driver import Outcome, Sub
from vlib import shim as shimmod

LEVEL = "exploration"
RULE = ("generated: one wake-capable field, single bunch at bucket 0 (two cases in three) or a train of 1-3 bunches with "
        "their own profiles at bucket*spacing incl. empty buckets (per-bunch power against the wake of that bunch alone), n in 8..64, transform length N from the pool "
        "(even, odd, prime, power of two; N >= n), passive impedance (free space, parallel plates, resistive wall, "
        "collimator, factory sums, random passive samples), arbitrary profile (non-negative or signed).  Oracle: "
        "Parseval relation between getCSRPower() and sum(profile * unscaled padded wake) with the zero-frequency and "
        "highest-bin terms computed independently in float64; exact non-negativity; cutoff monotonicity.  "
        "non-trivial = the bins 0<k<N/2 carry >= 10% of sum Re Z |F|^2 and the resistive part is >= 100 x the rounding allowance; distinct = case hash")
ASSUMPTIONS = ["float64 DFT of the profile at two bins is exact to 1e-12"]
TOLERANCES = {"parseval_abs": "0.5*||rho||_1*3e-6*sum_k m_k|Z_k|(|F_k|+0.3||rho||_2) + 1e-5*sum_k |Z_k||F_k|^2", "nonnegativity": "exact", "cutoff_monotone_rel": 1e-6}
C_LIGHT = 2.99792458e8


def S():
    return shimmod.get()


def impedance(s, r, case, N):
    k = case["zkind"]
    fmax = case["fmax"]
    if k == "freespace":
        return s.imp_model("freespace", N, fmax, [case["frev"]])
    if k == "plates":
        return s.imp_model("parallelplates", N, fmax, [case["frev"], case["gap"]])
    if k == "wall":
        return s.imp_model("resistivewall", N, fmax, [case["frev"], C_LIGHT / case["frev"], case["cond"], case["xi"], case["gap"] / 2])
    if k == "collimator":
        return s.imp_model("collimator", N, fmax, [case["gap"] / 2, case["gap"] / 2 * case["collratio"]])
    if k == "factory":
        R = C_LIGHT / (2 * np.pi * case["frev"])
        h = s.imp_make(N, fmax, R, case["frev"], case["gap"], True, case["cond"], case["xi"], case["gap"] / 2 * case["collratio"], "")
        return h
    # random passive
    z = (10 ** r.uniform(-2, 3, N)) + 1j * r.standard_normal(N) * 10 ** r.uniform(-2, 3, N)
    if k == "randreal0":
        z.real[r.random(N) < 0.3] = 0.0
    elif k == "randtail0":      # band-limited table (a short impedance file is padded with exact zeros)
        z[int(r.uniform(0.02, 0.98) * (N // 2)):] = 0
    elif k == "randsparse":
        z[r.random(N) < 0.5] = 0
    return s.imp_array(z.astype(np.complex64), fmax)


def make_profile(r, n, kind):
    if kind == "pos":
        return (r.random(n) ** 2).astype(np.float32)
    if kind == "gauss":
        x = np.arange(n)
        return np.exp(-0.5 * ((x - n * r.uniform(0.3, 0.7)) / (n * r.uniform(0.03, 0.2))) ** 2).astype(np.float32)
    return r.standard_normal(n).astype(np.float32)


def run_case(case):
    s = S()
    n, N = case["n"], case["N"]
    buckets, spacing = case.get("buckets", [0]), case.get("spacing", 0)
    nb = len(buckets)
    r = gen.rng(case["dseed"])
    s.reset(n, nb)
    L = case["L"]
    ps = s.ps_new(-L, L, -L, L, qscale=case["sigma_z"], pscale=6e5, current=case["Ib"], filling=np.full(nb, 1.0 / nb, np.float32))
    profs = [make_profile(r, n, case["pkind"]) for _ in range(nb)]
    imp = impedance(s, r, case, N)
    Z = s.imp_data(imp).astype(np.complex128)
    if not np.isfinite(Z).all():
        return Outcome(True, False, ["nonfinite_Z"], discard=True)
    ef = s.ef_wake(ps, imp, buckets, spacing, case["frev"], 1e-3, case["Ib"], 1.3e9, 4.7e-4, 1e-10)
    # earlier requests on the same object (other profiles, a cutoff) must not matter for "one and the same profile"
    if case.get("intzero"):
        # the grid was integrated while it was still empty (a phase space built from zeros, to be filled later) and only
        # its projection is refreshed afterwards: the field works on the CURRENT profile, not on the total charge the
        # grid remembers (round-10 seeds C06j / C07j return zeros when that remembered charge is zero)
        for b in range(nb):
            s.ps_set_projection(ps, 0, b, np.zeros(n, np.float32))
        s.ps_op(ps, "integrate")
    for op in case.get("prelude", []):
        for b in range(nb):
            s.ps_set_projection(ps, 0, b, (r.random(n) * 3).astype(np.float32))
        s.ef_do(ef, op[0], op[1] if len(op) > 1 else 0.0)
    for b in range(nb):
        s.ps_set_projection(ps, 0, b, profs[b])
    # all bunches present: wake request first (it fills the shared padded buffer), then the spectrum
    s.ef_do(ef, "wake")
    w_all = s.ef_get(ef, "padded_wake").astype(np.float64)
    s.ef_do(ef, "csr", 0.0)
    spec_all = s.ef_get(ef, "csr_spectrum").copy()
    P_all = s.ef_get(ef, "csr_power").astype(np.float64).copy()
    info = s.ef_info(ef)
    cls = ["z_" + case["zkind"], gen.nclass(N), "p_" + case["pkind"], "prelude" if case.get("prelude") else "fresh", "nb%d" % nb]
    if nb > 1 or max(buckets) > 0:
        cls.append("gaps" if max(buckets) >= nb else "contiguous")
    dq = float(np.float32(np.float32(2 * L) / np.float32(n - 1)))
    df = info["fdelta"]
    kk = np.arange(N // 2 + 1)
    E = np.exp(-2j * np.pi * np.outer(kk, np.arange(n)) / N)
    met = {}
    nontriv_any = False
    for b in range(nb):
        prof = profs[b]
        spec0, P0 = spec_all[b], float(P_all[b])
        off = buckets[b] * spacing
        if nb == 1:
            w = w_all
        else:
            # the wake of this bunch alone ("one and the same profile"): the other buckets emptied
            for c in range(nb):
                s.ps_set_projection(ps, 0, c, prof if c == b else np.zeros(n, np.float32))
            s.ef_do(ef, "wake")
            w = s.ef_get(ef, "padded_wake").astype(np.float64)
        rho = prof.astype(np.float64)
        F = E @ rho
        terms = Z.real[:N // 2 + 1] * np.abs(F) ** 2
        total = np.abs(terms).sum()
        inner = np.abs(terms[1:N // 2]).sum()
        # rounding scale: the reactive part enters the wake too and cancels only in exact arithmetic
        mag = (np.abs(Z[:N // 2 + 1]) * np.abs(F) ** 2).sum()
        # the wake entering the right-hand side comes out of a float FFT pipeline: per-cell error <= 3e-6 * B (see C06),
        # B = sum_k m_k |Z_k| (|F_k| + 0.3 ||rho||_2); summed against the profile that is <= ||rho||_1 * 3e-6 * B
        mk = np.full(N // 2 + 1, 2.0)
        mk[0] = 1.0
        B = (mk * np.abs(Z[:N // 2 + 1]) * (np.abs(F) + 0.3 * np.sqrt((rho * rho).sum())))[:max(1, N // 2)].sum()
        tolabs = 0.5 * np.abs(rho).sum() * 3e-6 * B + 1e-5 * mag + 1e-300
        nontriv = bool(total > 0 and inner >= 0.1 * total and total >= 100 * tolabs)
        nontriv_any = nontriv_any or nontriv
        where = "bunch %d of %d (buckets %s, spacing %d): " % (b, nb, buckets, spacing) if nb > 1 else ""
        # exact non-negativity
        if (Z.real >= 0).all():
            if (spec0 < 0).any() or not np.isfinite(spec0).all():
                i = int(np.argwhere(~(spec0 >= 0))[0][0])
                return Outcome(False, nontriv, cls, where + "CSR spectrum negative/non-finite at bin %d: %r (Re Z = %r)" % (i, float(spec0[i]), Z.real[i]), sig="c07:spec_negative")
            if not P0 >= 0:
                return Outcome(False, nontriv, cls, where + "CSR power negative: %r" % P0, sig="c07:power_negative")
        lhs = P0 / (df * dq * dq) - 0.5 * terms[0] - terms[N // 2]
        rhs = 0.5 * float((rho * w[off:off + n]).sum())
        err = abs(lhs - rhs) / (mag + 1e-300)
        met["parseval_err_over_tol"] = max(met.get("parseval_err_over_tol", 0), abs(lhs - rhs) / tolabs)
        if abs(lhs - rhs) > tolabs:
            return Outcome(False, nontriv, cls, where + "CSR power/(df*dq^2) minus DC and top-bin terms = %.8g, half of sum(profile*wake) = %.8g (rel %.3g of sum |Z||F|^2; n=%d N=%d Z=%s)" %
                           (lhs, rhs, err, n, N, case["zkind"]), sig="c07:parseval", metrics=met)
        # spectrum itself: dq^2 * Re Z * |F|^2 at every bin below N/2 (reference DFT)
        ref = dq * dq * terms
        se = np.abs(spec0[:N // 2 + 1] - ref).max() / (dq * dq * (np.abs(Z.real[:N // 2 + 1]).max() * (np.abs(F) ** 2).max()) + 1e-33)   # 1e-33: denormal results carry only a few bits
        met["spectrum_rel"] = max(met.get("spectrum_rel", 0), se)
        if se > 1e-4:
            return Outcome(False, nontriv, cls, where + "CSR spectrum differs from dq^2 Re Z |F|^2 by %.3g of its maximum" % se, sig="c07:spectrum", metrics=met)
        if (spec0[N // 2 + 1:] != 0).any():
            return Outcome(False, nontriv, cls, where + "CSR spectrum non-zero above N/2", sig="c07:spectrum_upper", metrics=met)
    nontriv = nontriv_any
    for b in range(nb):
        s.ps_set_projection(ps, 0, b, profs[b])
    # cutoff: smaller, non-negative, monotone
    fcs = sorted(case["cutoffs"])
    prevP, prevS = P_all.copy(), spec_all
    for fc in fcs:
        s.ef_do(ef, "csr", fc)
        sp = s.ef_get(ef, "csr_spectrum").copy()
        Pc = s.ef_get(ef, "csr_power").astype(np.float64).copy()
        if (Z.real >= 0).all() and ((sp < 0).any() or not (Pc >= 0).all()):
            return Outcome(False, nontriv, cls, "with cutoff %g the CSR power/spectrum is negative (P=%r)" % (fc, Pc.tolist()), sig="c07:cutoff_negative", metrics=met)
        if (Z.real >= 0).all():
            if (Pc > prevP * (1 + 1e-6) + 1e-37).any() or (sp > prevS * (1 + 1e-6) + 1e-37).any():
                return Outcome(False, nontriv, cls, "raising the cutoff frequency to %g increases the CSR power: %r -> %r" % (fc, prevP.tolist(), Pc.tolist()), sig="c07:cutoff_monotone", metrics=met)
        prevP, prevS = Pc, sp
    if fcs:
        cls.append("cutoff")
    return Outcome(True, nontriv, cls, metrics=met)


@st.composite
def cases(draw):
    N = draw(st.sampled_from([N for N in gen.NPOOL if N <= 512]))
    n = draw(st.integers(8, max(8, min(64, N))))

    def lg(lo, hi):
        return float(10 ** draw(st.floats(np.log10(lo), np.log10(hi))))
    zk = draw(st.sampled_from(["freespace", "plates", "wall", "collimator", "factory", "random", "random", "randreal0", "randtail0", "randsparse"]))
    if zk in ("plates", "factory"):
        N = min(N, 200)
        n = min(n, N)
    layout = {}
    if draw(st.integers(0, 2)) == 0:
        # a train: 1-3 bunches with their own profiles at bucket*spacing (empty buckets in between / behind allowed, so a
        # single bunch need not sit at bucket 0)
        nb = draw(st.integers(1, 3))
        n, buckets, spacing, N, _ = gen.field_layout(draw, nb, nmin=8, nmax=48, nlimit=200 if zk in ("plates", "factory") else 512)
        layout = dict(buckets=buckets, spacing=spacing)
    return dict(layout, n=n, N=N, dseed=draw(gen.seeds()), zkind=zk, pkind=draw(st.sampled_from(["pos", "gauss", "signed"])),
                L=draw(st.sampled_from([4.0, 6.0])), sigma_z=lg(1e-4, 1e-2), Ib=lg(1e-4, 1e-1),
                fmax=gen.f32(lg(1e10, 1e13)), frev=gen.f32(lg(1e6, 1e8)), gap=lg(5e-3, 0.1), cond=lg(1e5, 1e8),
                xi=draw(st.sampled_from([0.0, 0.0, -0.5, 3.0])), collratio=draw(st.floats(0.1, 0.9)),
                cutoffs=[gen.f32(lg(1e8, 1e13)) for _ in range(draw(st.integers(0, 3)))],
                prelude=draw(st.lists(st.sampled_from([["csr", 0.0], ["csr", 1e10], ["csr", 3e11], ["wake"]]), max_size=2)),
                intzero=draw(st.integers(0, 3)) == 0)


def subs(tier):
    return [Sub("parseval", cases(), run_case, quick=25000, thorough=600000)]
