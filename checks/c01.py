"""C01 — every transport step conserves the charge of a distribution inside the grid (DESIGN.md §3 C01)."""
import numpy as np
from hypothesis import strategies as st

from vlib import gen
from vlib.driver import Outcome, Sub
from vlib import shim as shimmod

LEVEL = "exploration"
RULE = ("generated: map kind x n in 8..96 x nb in 1..4 x interpolation order 1..4 x displacement field (mixture of integer, "
        "half, tiny, fractional, near-limit offsets of either sign / fields computed by RF, drift, wake) x data kind; data is "
        "constructed inside each row's admissible interval.  Two oracles: total-sum conservation and operator column sums "
        "(unit impulses).  non-trivial: a charged row has a fractional offset with |frac| in [0.05,0.95] (kick maps); "
        "FPType != 0 and charge within 3 rows of the zero-energy bin (Fokker-Planck); identity: data not all zero; "
        "distinct = distinct case hash.  reach: generic kick with per-row offsets around +-n/2 (both sides, whole-cell and "
        "fractional) and charge wherever source cell and image are both >= it+1 cells from the border (the property's own "
        "hypothesis); rows with a complete weight table judged on their own; non-trivial = a charged row with |offset| > n/2-it-2")
ASSUMPTIONS = ["float64 summation of <= 4*96*96 values is exact to 1e-12 relative"]
TOL_SUM = 2e-6       # relative to sum |data_in| (kick maps)
TOL_COL = 6e-7       # column sums, per interpolation point
FP_C = 3.0           # |column sum - 1| <= FP_C * e1 within 3 rows of the zero bin (4-point stencil)
TOLERANCES = {"sum_rel": TOL_SUM, "colsum_abs_per_point": TOL_COL, "fp_zero_bin_defect_factor": FP_C}

KINDS = ["kick", "kick", "rf_lin", "rf_sin", "drift", "wake", "fp", "fp", "identity"]


def S():
    return shimmod.get()


def margins_for(offs, it):
    return (np.ceil(np.abs(offs)) + it + 1).astype(int)


def fill_rows(r, nb, n, axis, marg, kind, onecell=False):
    """data with charge only inside [m, n-1-m] of every row (row = line along the kick axis)"""
    data = np.zeros((nb, n, n), np.float32)
    raw = gen.moderate_f32(r, (nb, n, n), kind)
    idx = np.arange(n)
    for b in range(nb):
        for row in range(n):
            m = int(marg[b][row])
            ok = (idx >= m) & (idx <= n - 1 - m)
            if not ok.any():
                continue
            if onecell:
                j = int(r.choice(idx[ok]))
                ok = idx == j
                val = np.float32(1.0)
            else:
                val = None
            if axis == 1:
                data[b, row, ok] = raw[b, row, ok] if val is None else val
            else:
                data[b, ok, row] = raw[b, ok, row] if val is None else val
    return data


def world(case, nb):
    s = S()
    n = case["n"]
    s.reset(n, nb)
    L, sx, sy = case["L"], case["sx"], case["sy"]
    Lp = case.get("Lp", L)       # the two axes may have different extents, i.e. different mesh spacings
    fill = np.full(nb, 1.0 / nb, np.float32)
    kw = dict(filling=fill, qscale=case.get("qscale", 1.2e-3), pscale=case.get("pscale", 6.11e5))
    a = s.ps_new(-L + sx, L + sx, -Lp + sy, Lp + sy, **kw)
    b = s.ps_new(-L + sx, L + sx, -Lp + sy, Lp + sy, **kw)
    return s, a, b


def build(s, case, a, b, nb):
    """returns (map handle, axis, offsets[nb][n] or None)"""
    kind, it, n = case["kind"], case["it"], case["n"]
    if kind == "kick":
        axis = case["axis"]
        m = s.map_kick(a, b, it, axis)
        offs = np.array(case["offsets"], np.float32)
        if axis == 0:
            full = np.tile(offs[:n], nb)          # x-kick: one block shared by all bunches
        else:
            full = np.resize(offs, nb * n)
            if case.get("perbunch"):
                r = gen.rng(case["dseed"] + 3)
                full = full + r.integers(-1, 2, size=nb * n).astype(np.float32) * np.float32(0.25)
        s.map_set_offset(m, full)
        return m, axis, s.map_force(m, nb * n).reshape(nb, n)
    if kind == "rf_lin":
        m = s.map_rf_linear(a, b, case["angle"], 5e8, it)
        o = s.map_force(m, n)
        return m, 1, np.tile(o, (nb, 1))
    if kind == "rf_sin":
        m = s.map_rf_sin(a, b, case["revpart"], case["V"], 5e8, case["V0"], it)
        o = s.map_force(m, n)
        return m, 1, np.tile(o, (nb, 1))
    if kind == "drift":
        m = s.map_drift(a, b, case["slip"], 1.3e9, it)
        o = s.map_force(m, n)
        return m, 0, np.tile(o, (nb, 1))
    if kind == "identity":
        return s.map_identity(a, b), 1, np.zeros((nb, n), np.float32)
    raise ValueError(kind)


def frac_nontrivial(offs, charged):
    f = np.abs(offs - np.round(offs))
    return bool(((f >= 0.05) & (f <= 0.5) & charged).any())


def run_sum(case):
    kind, it, n, nb = case["kind"], case["it"], case["n"], case["nb"]
    r = gen.rng(case["dseed"])
    cls = [kind, "it%d" % it, "nb%d" % min(nb, 2), case["dkind"]]
    if kind == "fp":
        return run_fp_sum(case, r, cls)
    s, a, b = world(case, nb)
    if kind == "wake":
        # the wake needs a profile first: provisional data, then the real data constructed against the wake
        prov = fill_rows(r, nb, n, 1, np.full((nb, n), 3), "pos")
        s.ps_data(a)[:] = prov
        s.ps_op(a, "updateX")
        bk, spacing, N = case["buckets"], case["spacing"], case["N"]
        z = (r.standard_normal(N) + 1j * r.standard_normal(N)).astype(np.complex64)
        imp = s.imp_array(z, 1e12)
        ef = s.ef_wake(a, imp, bk, spacing, 9e6, 1e-3, 1.0, 1.3e9, 4.7e-4, 1e-10)
        s.ef_do(ef, "wake")
        mx = float(np.abs(s.ef_get(ef, "wake")).max())
        Ib = case["amp"] / mx if mx > 0 and np.isfinite(mx) else 1.0
        ef = s.ef_wake(a, imp, bk, spacing, 9e6, 1e-3, Ib, 1.3e9, 4.7e-4, 1e-10)
        m = s.map_wake(a, b, ef, it)
        s.map_wake_update(m)          # displacement field now fixed (computed from the provisional profile)
        offs = s.map_force(m, nb * n).reshape(nb, n)
        axis = 1
    else:
        m, axis, offs = build(s, case, a, b, nb)
    marg = margins_for(offs, it)
    data = fill_rows(r, nb, n, axis, marg, case["dkind"])
    s.ps_data(a)[:] = data
    s.map_apply(m)
    out = s.ps_data(b).astype(np.float64)
    sin, sout, sabs = data.astype(np.float64).sum(), out.sum(), np.abs(data.astype(np.float64)).sum()
    if axis == 1:
        charged = (np.abs(data).sum(axis=2) > 0)
    else:
        charged = (np.abs(data).sum(axis=1) > 0)
    nontriv = frac_nontrivial(offs, charged) if kind != "identity" else bool(sabs > 0)
    if offs is not None and (offs[charged] < 0).any():
        cls.append("negoff")
    if offs is not None and (offs[charged] > 0).any():
        cls.append("posoff")
    rel = abs(sout - sin) / sabs if sabs > 0 else abs(sout - sin)
    met = {"sum_rel_%s" % kind: rel}
    if kind == "identity":
        if (gen.bits(s.ps_data(b)) != gen.bits(data)).any():
            return Outcome(False, nontriv, cls, "identity step changed the data (n=%d nb=%d)" % (n, nb), sig="c01:identity", metrics=met)
        return Outcome(True, nontriv, cls, metrics=met)
    if rel > TOL_SUM:
        return Outcome(False, nontriv, cls, "%s: total charge changed by %.3g of sum|data| (n=%d nb=%d it=%d axis=%d): in %.9g out %.9g" %
                       (kind, rel, n, nb, it, axis, sin, sout), sig="c01:sum:%s:it%d" % (kind, it), metrics=met)
    return Outcome(True, nontriv, cls, metrics=met)


def fp_world(case):
    s, a, b = world(case, case["nb"])
    m = s.map_fp(a, b, case["fptype"], 0, case["e1"], case["deriv"])
    g = s.ps_get(a, "geom")
    return s, a, b, m, float(g[1]), float(g[3])      # delta_p, zerobin_p


def run_fp_sum(case, r, cls):
    n, nb = case["n"], case["nb"]
    s, a, b, m, dp, zb = fp_world(case)
    cls += ["fpt%d" % case["fptype"], "d%d" % case["deriv"]]
    marg = np.full((nb, n), 3)
    data = fill_rows(r, nb, n, 1, marg, case["dkind"])
    if case.get("avoid_zero"):
        k = np.arange(n)
        data[:, :, np.abs(k - zb) <= 3.5] = 0
    s.ps_data(a)[:] = data
    s.map_apply(m)
    out = s.ps_data(b).astype(np.float64)
    d64 = data.astype(np.float64)
    sin, sout, sabs = d64.sum(), out.sum(), np.abs(d64).sum()
    k = np.arange(n)
    near = np.abs(k - zb) <= 3.5
    near_abs = np.abs(d64[:, :, near]).sum()
    e1 = case["e1"]
    Lp_ = case.get("Lp", case["L"])
    pmax = max(abs(-Lp_ + case["sy"]), abs(Lp_ + case["sy"]))
    wscale = 1 + 4 * e1 / dp ** 2 + 2 * e1 * pmax / dp      # sum of |weights| of the stencil (rounding scale)
    allow = TOL_SUM * wscale * sabs
    if case["deriv"] == 4 and case["fptype"] in (1, 3):
        allow += FP_C * e1 * near_abs
    nontriv = case["fptype"] != 0 and near_abs > 0
    met = {"fp_sum_excess": abs(sout - sin) / max(allow, 1e-300)}
    if abs(sout - sin) > allow:
        return Outcome(False, nontriv, cls, "fp: total charge changed by %.3g (allowed %.3g) n=%d nb=%d fptype=%d deriv=%d e1=%g" %
                       (abs(sout - sin), allow, n, nb, case["fptype"], case["deriv"], e1),
                       sig="c01:sum:fp:d%d:t%d" % (case["deriv"], case["fptype"]), metrics=met)
    return Outcome(True, nontriv, cls, metrics=met)


def run_col(case):
    """operator column sums: unit impulses, one per row"""
    kind, it, n, nb = case["kind"], case["it"], case["n"], case["nb"]
    r = gen.rng(case["dseed"])
    cls = ["col_" + kind, "it%d" % it]
    if kind in ("wake", "identity"):
        return Outcome(True, False, cls, discard=True)
    if kind == "fp":
        s, a, b, m, dp, zb = fp_world(case)
        cls += ["fpt%d" % case["fptype"], "d%d" % case["deriv"]]
        data = np.zeros((nb, n, n), np.float32)
        ks = 3 + (np.arange(n) + int(r.integers(0, n))) % (n - 6)
        for bb in range(nb):
            data[bb, np.arange(n), ks] = 1.0
        s.ps_data(a)[:] = data
        s.map_apply(m)
        out = s.ps_data(b).astype(np.float64)
        cs = out.sum(axis=2)                      # (nb, n): column sum for source (x, ks[x])
        e1 = case["e1"]
        Lp_ = case.get("Lp", case["L"])
        pmax = max(abs(-Lp_ + case["sy"]), abs(Lp_ + case["sy"]))
        wscale = 1 + 4 * e1 / dp ** 2 + 2 * e1 * pmax / dp
        near = np.abs(ks - zb) <= 3.5
        allow = np.full(n, 1e-6 * wscale)
        if case["deriv"] == 4 and case["fptype"] in (1, 3):
            allow = np.where(near, allow + FP_C * e1, allow)
        dev = np.abs(cs - 1.0)
        worst = (dev / allow[None, :]).max()
        met = {"fp_col_excess": worst}
        if case["deriv"] == 4 and case["fptype"] in (1, 3) and near.any():
            met["fp_zero_defect_over_e1"] = float(dev[:, near].max() / e1)
        if worst > 1:
            i = np.unravel_index((dev / allow[None, :]).argmax(), dev.shape)
            return Outcome(False, True, cls, "fp: column sum of source row %d (zero bin %.2f) is %.9g (allowed deviation %.3g) n=%d fptype=%d deriv=%d e1=%g" %
                           (ks[i[1]], zb, cs[i], allow[i[1]], n, case["fptype"], case["deriv"], e1),
                           sig="c01:col:fp:d%d:t%d:%s" % (case["deriv"], case["fptype"], "near" if near[i[1]] else "far"), metrics=met)
        return Outcome(True, case["fptype"] != 0, cls, metrics=met)
    s, a, b = world(case, nb)
    m, axis, offs = build(s, case, a, b, nb)
    marg = margins_for(offs, it)
    data = fill_rows(r, nb, n, axis, marg, "pos", onecell=True)
    s.ps_data(a)[:] = data
    s.map_apply(m)
    out = s.ps_data(b).astype(np.float64)
    rows_in = data.sum(axis=2 if axis == 1 else 1)
    rows_out = out.sum(axis=2 if axis == 1 else 1)
    dev = np.abs(rows_out - rows_in)
    met = {"col_dev_it%d" % it: dev.max()}
    charged = rows_in > 0
    nontriv = frac_nontrivial(offs, charged)
    if dev.max() > TOL_COL * it:
        i = np.unravel_index(dev.argmax(), dev.shape)
        return Outcome(False, nontriv, cls, "%s: weights handed out by one source cell sum to %.9g (bunch %d row %d offset %r, n=%d it=%d axis=%d)" %
                       (kind, rows_out[i], i[0], i[1], float(offs[i]), n, it, axis), sig="c01:col:%s:it%d" % (kind, it), metrics=met)
    return Outcome(True, nontriv, cls, metrics=met)


@st.composite
def cases(draw):
    kind = draw(st.sampled_from(KINDS))
    n = gen.grid_size(draw, 8, 96, one_in=40)
    nb = draw(st.sampled_from([1, 1, 2, 3, 4])) if n < 200 else draw(st.sampled_from([1, 2]))
    it = draw(st.sampled_from([1, 2, 3, 4]))
    c = dict(kind=kind, n=n, nb=nb, it=it, dseed=draw(gen.seeds()),
             dkind=draw(st.sampled_from(["noise", "pos", "altsign", "impulse"])),
             L=draw(st.sampled_from([4.0, 6.0, 8.0])), sx=draw(st.sampled_from([0.0, 0.0, 0.5, -1.25])),
             sy=draw(st.sampled_from([0.0, 0.0, -0.75, 1.5])))
    if draw(st.integers(0, 3)) == 0 and kind in ("kick", "fp", "identity", "drift", "rf_lin"):
        c["Lp"] = draw(st.sampled_from([3.0, 5.0, 9.0, 12.0]))
    lim = max(0.0, n / 2 - it - 2)
    if kind == "kick":
        c["axis"] = draw(st.sampled_from([0, 1]))
        mode = draw(st.sampled_from(["rows", "rows", "uniform"]))
        if mode == "rows":
            c["offsets"] = [gen.offset_mixture(draw, lim) for _ in range(n)]
        else:
            c["offsets"] = [gen.offset_mixture(draw, lim)] * n
        c["perbunch"] = draw(st.booleans())
    elif kind == "rf_lin":
        c["angle"] = gen.f32(draw(st.floats(1e-3, 0.6)))
    elif kind == "rf_sin":
        # offsets = revpart*(-V sin(q*bl2phase)+V0)/(delta_p*pscale): choose V so that the largest kick is amp cells
        amp = draw(st.floats(0.1, max(0.2, n / 3)))
        c["revpart"] = 1e-3
        dp = 2 * c["L"] / (n - 1)
        c["qscale"] = gen.f32(draw(st.floats(1e-3, 3e-2)))      # bunch length in m: phase range q*bl2phase
        c["V"] = gen.f32(amp * dp * 6.11e5 / c["revpart"])
        c["V0"] = gen.f32(c["V"] * draw(st.floats(0, 0.2)))
    elif kind == "drift":
        th = draw(st.floats(1e-3, 0.6))
        c["slip"] = [gen.f32(th), gen.f32(th * draw(st.floats(-0.05, 0.05))), gen.f32(th * draw(st.floats(-0.01, 0.01)))]
    elif kind == "wake":
        n, buckets, spacing, N, _ = gen.field_layout(draw, nb, nmax=64)
        c["n"] = n
        c["buckets"], c["spacing"], c["N"] = buckets, spacing, N
        c["amp"] = gen.f32(draw(st.floats(0.1, max(0.2, n / 3))))
    elif kind == "fp":
        c["fptype"] = draw(st.sampled_from([0, 1, 2, 3, 3]))
        c["deriv"] = draw(st.sampled_from([3, 4]))
        c["e1"] = gen.f32(10 ** draw(st.floats(-5, np.log10(0.05))))
        c["avoid_zero"] = draw(st.integers(0, 3)) == 0
    return c



# ------------------------------------------------------------------ displacements near half the grid (the property's own hypothesis)
def affected_rows(offs, n, it):
    """rows whose weight table KickMap::updateSM truncates: the table is computed once per row, for the centre cell; a stencil
    slot whose centre-relative source index n/2 + floor(o) + j - (it-1)/2 leaves [0, n) gets weight 0 for EVERY cell of the row"""
    o = np.asarray(offs, np.float32)
    p = np.float32(n // 2) + o
    inside = (p >= 0) & (p < n)
    jd = np.floor(np.where(inside, p, 0)).astype(np.int64)
    lo = jd - (it - 1) // 2
    hi = jd + (it - 1) - (it - 1) // 2
    return (~inside) | (lo < 0) | (hi >= n)


def run_reach(case):
    """charge wherever BOTH the source cell s and its image s - o are at least it+1 cells from the border - exactly the
    hypothesis of the property, without the extra clearance of ceil|o| that run_sum adds.  Rows are independent under a kick map,
    so the rows the known finding cannot touch are judged on their own."""
    n, nb, it, axis = case["n"], case["nb"], case["it"], case["axis"]
    r = gen.rng(case["dseed"])
    s, a, b = world(case, nb)
    m = s.map_kick(a, b, it, axis)
    offs = np.array(case["offsets"], np.float32)
    full = np.tile(offs[:n], nb) if axis == 0 else np.resize(offs, nb * n)
    s.map_set_offset(m, full)
    offs = s.map_force(m, nb * n).reshape(nb, n)
    raw = gen.moderate_f32(r, (nb, n, n), case["dkind"])
    data = np.zeros((nb, n, n), np.float32)
    idx = np.arange(n, dtype=np.float64)
    for bb in range(nb):
        for row in range(n):
            o = float(offs[bb][row])
            ok = (idx >= it + 1) & (idx <= n - 2 - it) & (idx - o >= it + 1) & (idx - o <= n - 2 - it)
            if axis == 1:
                data[bb, row, ok] = raw[bb, row, ok]
            else:
                data[bb, ok, row] = raw[bb, ok, row]
    s.ps_data(a)[:] = data
    s.map_apply(m)
    out = s.ps_data(b).astype(np.float64)
    d64 = data.astype(np.float64)
    ax = 2 if axis == 1 else 1
    rin, rout, rabs = d64.sum(axis=ax), out.sum(axis=ax), np.abs(d64).sum(axis=ax)      # [nb][row]
    aff = affected_rows(offs, n, it)
    charged = rabs > 0
    near = np.abs(offs) > n / 2 - it - 2
    cls = ["reach", "it%d" % it, "axis%d" % axis]
    if (charged & aff).any():
        cls.append("truncated_table_rows")
    if (charged & ~aff & near).any():
        cls.append("near_half_grid_untruncated")
    nontriv = bool((charged & near).any())
    un = charged & ~aff
    sabs_un = rabs[un].sum()
    rel_un = abs(rout[un].sum() - rin[un].sum()) / sabs_un if sabs_un > 0 else 0.0
    # stale or foreign content must not appear in rows that carry no charge either
    met = {"reach_sum_rel_untruncated": rel_un}
    if rel_un > TOL_SUM:
        k = np.argwhere(un & (np.abs(rout - rin) > TOL_SUM * np.maximum(rabs, 1e-30)))
        bb, row = (int(k[0][0]), int(k[0][1])) if len(k) else (0, 0)
        return Outcome(False, nontriv, cls, "kick (support clear of the border before and after): charge of the rows with a complete weight table "
                       "changed by %.3g of sum|data| (n=%d nb=%d it=%d axis=%d); first row: bunch %d row %d offset %.6g in %.9g out %.9g" %
                       (rel_un, n, nb, it, axis, bb, row, float(offs[bb][row]), rin[bb][row], rout[bb][row]), sig="c01:reach:interior:it%d" % it, metrics=met)
    ta = charged & aff
    sabs_a = rabs[ta].sum()
    rel_a = abs(rout[ta].sum() - rin[ta].sum()) / sabs_a if sabs_a > 0 else 0.0
    if rel_a > TOL_SUM:
        k = np.argwhere(ta & (np.abs(rout - rin) > TOL_SUM * np.maximum(rabs, 1e-30)))
        bb, row = int(k[0][0]), int(k[0][1])
        return Outcome(False, nontriv, cls, "kick with a displacement within one stencil of half the grid: charge of bunch %d row %d (offset %.6g, n=%d it=%d "
                       "axis=%d) changed from %.9g to %.9g although source and image are >= it+1 cells from the border" %
                       (bb, row, float(offs[bb][row]), n, it, axis, rin[bb][row], rout[bb][row]), sig="c01:reach:halfgrid", metrics=met)
    return Outcome(True, nontriv, cls, metrics=met)


@st.composite
def reach_cases(draw):
    n = draw(st.integers(8, 72))
    it = draw(st.sampled_from([1, 2, 3, 4]))
    nb = draw(st.sampled_from([1, 1, 2, 3]))
    h = n // 2

    def off():
        k = draw(st.integers(0, 9))
        if k <= 3:          # within a few cells of +-n/2, either side of it
            d = draw(st.integers(-4 * (it + 2), 4 * (it + 2))) / 4.0
            return gen.f32((h if draw(st.booleans()) else -h) + d)
        if k == 4:
            return float(draw(st.sampled_from([-h, n - 1 - h, h, -h + 1, h - 1])))
        if k <= 7:
            return gen.f32(draw(st.floats(-h, h)))
        return float(draw(st.integers(-h, h)))
    mode = draw(st.sampled_from(["rows", "uniform", "uniform"]))
    offs = [off() for _ in range(n * (nb if draw(st.booleans()) else 1))] if mode == "rows" else [off()] * n
    return dict(n=n, nb=nb, it=it, axis=draw(st.sampled_from([0, 1])), offsets=offs, dseed=draw(gen.seeds()),
                dkind=draw(st.sampled_from(["noise", "pos", "altsign"])), L=draw(st.sampled_from([4.0, 6.0])), sx=0.0, sy=0.0)


# ------------------------------------------------------------------ coverage-guided (libFuzzer, fuzz/fuzz_maps.cpp, oracle "sum")
from vlib import fuzzrun  # noqa: E402

MAPS_CORPUS = [bytes(range(200)), bytes([0] * 64), bytes([255, 3, 128, 64] * 64), bytes([17, 200, 90] * 100) + bytes([1, 9, 2, 3, 1, 0])]
run_fuzzsum = fuzzrun.make_runner("c01", "VERIF_FUZZMAPS", MAPS_CORPUS, max_len=4096, env_extra={"VERIF_MAPS_ORACLE": "sum"})

def finalize(cov, agg, tier):
    fuzzrun.finalize(cov, agg, "fuzzsum")


def subs(tier):
    return [Sub("fuzzsum", st.just({}), run_fuzzsum, quick=1, thorough=1, needs=("fuzzmaps",),
                enum=lambda t: fuzzrun.campaigns(t, 12000, 250000), max_wall={"quick": 400, "thorough": 3000}),
            Sub("sum", cases(), run_sum, quick=12000, thorough=120000),
            Sub("colsum", cases(), run_col, quick=8000, thorough=80000),
            Sub("reach", reach_cases(), run_reach, quick=6000, thorough=60000)]
